import Verif.Common.Proto
import Verif.C12.Pipeline
/-
Line protocol of the C12 model driver.

  merge <nruns> run*          run  := <ncf> cf* <nd> diag*
                              diag := file off line col efile eoff eline ecol cat msg sev mergeif build
  (strings hex-encoded, `-` = empty).  Every run is a lintResult and goes through
  `runFromLintResult`.  Output: `<n> entry*`, entry := the 10 descriptor tokens, <k>, k names.

  pipe <reg> <nruns> prun*    reg  := <n> (cat mergeif)*          (analyzer name, Doc.MergeIf)
                              prun := <mode> cwd name <ncf> cf* <nd> rawdiag*
                              rawdiag := file off line col efile eoff eline ecol cat msg sev src
    mode 0: the run is merged in-process (-matrix); mode 1: it went through `-f binary`
    (binOut) first.  src 1: a U1000 problem created by linter.lint itself.  Output as `merge`.
  binout <reg> prun           the lintResult `-f binary` writes: <ncf> cf* <nd> diag*
  parsecfg stdin              parseBuildConfigs: `ok <n> (name <ne> env* <nf> flag*)*` or
                              `err <line> <kind>`; `outside` for non-ASCII input
  matrix <reg> stdin <nt> (<ne> env* <nf> flag* <ncf> cf* <nd> rawdiag*)*
                              -matrix: parse stdin, look the result of each configuration up
                              by (envs, flags) in the table, merge; `err <line> <kind>` on a
                              parse error, `bad-op` when a configuration is not in the table
Anything malformed (wrong counts, trailing tokens, bad numbers) gives `bad-op`.
-/
namespace Verif.C12
open Verif.Proto

def parseDiag : List String → Option (Diag × List String)
  | f :: off :: ln :: col :: ef :: eoff :: eln :: ecol :: cat :: msg :: sev :: mi :: b :: rest => do
    let f ← hexDecode f
    let off ← parseInt off
    let ln ← parseInt ln
    let col ← parseInt col
    let ef ← hexDecode ef
    let eoff ← parseInt eoff
    let eln ← parseInt eln
    let ecol ← parseInt ecol
    let cat ← hexDecode cat
    let msg ← hexDecode msg
    let sev ← parseNat sev
    let mi ← parseInt mi
    let b ← hexDecode b
    pure ({ desc := { pos := ⟨f, off, ln, col⟩, end_ := ⟨ef, eoff, eln, ecol⟩, cat := cat, msg := msg },
            sev := sev, mergeIf := mi, build := b }, rest)
  | _ => none

def parseStrs : Nat → List String → Option (List String × List String)
  | 0, ts => some ([], ts)
  | n + 1, t :: ts => do
    let s ← hexDecode t
    let (r, rest) ← parseStrs n ts
    pure (s :: r, rest)
  | _ + 1, [] => none

def parseDiags : Nat → List String → Option (List Diag × List String)
  | 0, ts => some ([], ts)
  | n + 1, ts => do
    let (d, rest) ← parseDiag ts
    let (r, rest) ← parseDiags n rest
    pure (d :: r, rest)

def parseRes : List String → Option (LintResult × List String)
  | ncf :: ts => do
    let ncf ← parseNat ncf
    let (cfs, rest) ← parseStrs ncf ts
    match rest with
    | nd :: rest => do
      let nd ← parseNat nd
      let (ds, rest) ← parseDiags nd rest
      pure ({ checked := cfs, diags := ds }, rest)
    | [] => none
  | [] => none

def parseRuns : Nat → List String → Option (List LintResult × List String)
  | 0, ts => some ([], ts)
  | n + 1, ts => do
    let (r, rest) ← parseRes ts
    let (rs, rest) ← parseRuns n rest
    pure (r :: rs, rest)

def showDesc (k : Desc) : String :=
  s!"{hexEncode k.pos.file} {k.pos.off} {k.pos.line} {k.pos.col} {hexEncode k.end_.file} {k.end_.off} {k.end_.line} {k.end_.col} {hexEncode k.cat} {hexEncode k.msg}"

def showEntry (e : Desc × List String) : String :=
  " ".intercalate (showDesc e.1 :: toString e.2.length :: e.2.map hexEncode)

def showOut (out : List (Desc × List String)) : String :=
  " ".intercalate (toString out.length :: out.map showEntry)

def parseReg : List String → Option (Registry × List String)
  | n :: ts => do
    let n ← parseNat n
    let rec go : Nat → List String → Option (Registry × List String)
      | 0, ts => some ([], ts)
      | k + 1, c :: m :: ts => do
        let c ← hexDecode c
        let m ← parseInt m
        let (r, rest) ← go k ts
        pure ((c, m) :: r, rest)
      | _ + 1, _ => none
    go n ts
  | [] => none

def parseRawDiag : List String → Option (RawDiag × List String)
  | f :: off :: ln :: col :: ef :: eoff :: eln :: ecol :: cat :: msg :: sev :: src :: rest => do
    let f ← hexDecode f
    let off ← parseInt off
    let ln ← parseInt ln
    let col ← parseInt col
    let ef ← hexDecode ef
    let eoff ← parseInt eoff
    let eln ← parseInt eln
    let ecol ← parseInt ecol
    let cat ← hexDecode cat
    let msg ← hexDecode msg
    let sev ← parseNat sev
    let src ← parseBool src
    pure ({ desc := { pos := ⟨f, off, ln, col⟩, end_ := ⟨ef, eoff, eln, ecol⟩, cat := cat, msg := msg },
            sev := sev, fromUnused := src }, rest)
  | _ => none

def parseRawDiags : Nat → List String → Option (List RawDiag × List String)
  | 0, ts => some ([], ts)
  | n + 1, ts => do
    let (d, rest) ← parseRawDiag ts
    let (r, rest) ← parseRawDiags n rest
    pure (d :: r, rest)

def parseRawRes : List String → Option (RawResult × List String)
  | ncf :: ts => do
    let ncf ← parseNat ncf
    let (cfs, rest) ← parseStrs ncf ts
    match rest with
    | nd :: rest => do
      let nd ← parseNat nd
      let (ds, rest) ← parseRawDiags nd rest
      pure ({ checked := cfs, diags := ds }, rest)
    | [] => none
  | [] => none

/-- mode, cwd, name, raw result -/
def parsePRun : List String → Option ((Bool × String × String × RawResult) × List String)
  | mode :: cwd :: name :: ts => do
    let mode ← parseBool mode
    let cwd ← hexDecode cwd
    let name ← hexDecode name
    let (raw, rest) ← parseRawRes ts
    pure ((mode, cwd, name, raw), rest)
  | _ => none

def parsePRuns : Nat → List String → Option (List (Bool × String × String × RawResult) × List String)
  | 0, ts => some ([], ts)
  | n + 1, ts => do
    let (r, rest) ← parsePRun ts
    let (rs, rest) ← parsePRuns n rest
    pure (r :: rs, rest)

def pRunToRun (reg : Registry) (p : Bool × String × String × RawResult) : Run :=
  let (mode, cwd, name, raw) := p
  if mode then binaryRun reg cwd name raw else runFromLintResult (lintRun reg name raw)

def showDiag (d : Diag) : String :=
  s!"{showDesc d.desc} {d.sev} {d.mergeIf} {hexEncode d.build}"

def showLintResult (r : LintResult) : String :=
  " ".intercalate (toString r.checked.length :: r.checked.map hexEncode ++
    toString r.diags.length :: r.diags.map showDiag)

def showErrKind : ParseErr → String
  | .empty => "empty"
  | .missingName => "missing-name"
  | .unterminated => "unterminated"
  | .invalidName => "invalid-name"

def showStrs (l : List String) : String :=
  " ".intercalate (toString l.length :: l.map hexEncode)

def showCfg (c : BuildConfig) : String :=
  s!"{hexEncode c.name} {showStrs c.envs} {showStrs c.flags}"

def isAscii (s : String) : Bool := s.toList.all fun c => c.toNat < 128

/-- table of results keyed by (envs, flags) -/
def parseTable : Nat → List String → Option (List ((List String × List String) × RawResult) × List String)
  | 0, ts => some ([], ts)
  | n + 1, ne :: ts => do
    let ne ← parseNat ne
    let (envs, rest) ← parseStrs ne ts
    match rest with
    | nf :: rest => do
      let nf ← parseNat nf
      let (flags, rest) ← parseStrs nf rest
      let (raw, rest) ← parseRawRes rest
      let (t, rest) ← parseTable n rest
      pure (((envs, flags), raw) :: t, rest)
    | [] => none
  | _ + 1, [] => none

def stepMatrix (reg : Registry) (stdin : String)
    (tab : List ((List String × List String) × RawResult)) : String :=
  match parseBuildConfigs stdin.toList with
  | .error (ln, e) => s!"err {ln} {showErrKind e}"
  | .ok cfgs =>
    if cfgs.all (fun c => (tab.lookup (c.envs, c.flags)).isSome) then
      let lintOf := fun envs flags => (tab.lookup (envs, flags)).getD ⟨[], []⟩
      match matrixOutput reg lintOf stdin.toList with
      | .ok out => showOut out
      | .error (ln, e) => s!"err {ln} {showErrKind e}"
    else "bad-op"

def step (line : String) : String :=
  match tokens line with
  | "merge" :: n :: ts =>
    match parseNat n with
    | some n =>
      match parseRuns n ts with
      | some (rs, []) => showOut (output (rs.map runFromLintResult))
      | _ => "bad-op"
    | none => "bad-op"
  | "pipe" :: ts =>
    match parseReg ts with
    | some (reg, n :: ts) =>
      match parseNat n with
      | some n =>
        match parsePRuns n ts with
        | some (ps, []) => showOut (output (ps.map (pRunToRun reg)))
        | _ => "bad-op"
      | none => "bad-op"
    | _ => "bad-op"
  | "binout" :: ts =>
    match parseReg ts with
    | some (reg, ts) =>
      match parsePRun ts with
      | some ((_, cwd, name, raw), []) => showLintResult (binOut cwd (lintRun reg name raw))
      | _ => "bad-op"
    | none => "bad-op"
  | ["parsecfg", s] =>
    match hexDecode s with
    | some s =>
      if !isAscii s then "outside" else
      match parseBuildConfigs s.toList with
      | .ok cfgs => " ".intercalate ("ok" :: toString cfgs.length :: cfgs.map showCfg)
      | .error (ln, e) => s!"err {ln} {showErrKind e}"
    | none => "bad-op"
  | "matrix" :: ts =>
    match parseReg ts with
    | some (reg, s :: nt :: ts) =>
      match hexDecode s, parseNat nt with
      | some s, some nt =>
        if !isAscii s then "outside" else
        match parseTable nt ts with
        | some (tab, []) => stepMatrix reg s tab
        | _ => "bad-op"
      | _, _ => "bad-op"
    | _ => "bad-op"
  | _ => "bad-op"

end Verif.C12
