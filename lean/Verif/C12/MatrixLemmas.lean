import Verif.C12.PipelineLemmas
/-
C12 — lemmas about the `-matrix` line parser (`parseBuildConfigs`, `parseBuildConfig`).
-/
namespace Verif.C12

theorem splitC_ne_nil (sep : Char) (s : List Char) : splitC sep s ≠ [] := by
  cases s with
  | nil => simp [splitC]
  | cons c cs =>
    unfold splitC
    split
    · simp
    · split <;> simp

theorem splitC_append_sep (sep : Char) (s : List Char) :
    splitC sep (s ++ [sep]) = splitC sep s ++ [[]] := by
  induction s with
  | nil => simp [splitC]
  | cons c cs ih =>
    by_cases h : c = sep
    · simp [splitC, h, ih]
    · cases hs : splitC sep cs with
      | nil => exact absurd hs (splitC_ne_nil _ _)
      | cons l ls => simp [splitC, h, ih, hs]

theorem trimSpace_nil : trimSpace [] = [] := rfl

theorem All2.length_eq {α β : Type} {R : α → β → Prop} {l : List α} {l' : List β}
    (h : All2 R l l') : l.length = l'.length := by
  induction h with
  | nil => rfl
  | cons _ _ ih => simp [ih]

/-- blank pieces (empty after TrimSpace) are skipped wherever they are -/
theorem pbcLoop_filter (ls : List (List Char)) : ∀ i,
    pbcLoop i (ls.filter (fun l => trimSpace l ≠ [])) = pbcLoop i ls := by
  induction ls with
  | nil => intro i; rfl
  | cons l ls ih =>
    intro i
    by_cases h : trimSpace l = []
    · rw [List.filter_cons_of_neg (by simp [h])]
      have : pbcLoop i (l :: ls) = pbcLoop i ls := by simp only [pbcLoop, h, if_true]
      rw [this]; exact ih i
    · rw [List.filter_cons_of_pos (by simp [h])]
      simp only [h, pbcLoop, if_false]
      cases parseBuildConfig (trimSpace l) with
      | error e => rfl
      | ok c => simp only [ih]

theorem pbcLoop_append_blank (b : List Char) (hb : trimSpace b = []) (ls : List (List Char)) (i : Nat) :
    pbcLoop i (ls ++ [b]) = pbcLoop i ls := by
  rw [← pbcLoop_filter (ls ++ [b]), ← pbcLoop_filter ls]
  simp [List.filter_append, List.filter, hb]

/-- the loop succeeds with `cs` exactly when every non-blank piece parses, in order, to
the corresponding element of `cs` -/
theorem pbcLoop_ok_iff (ls : List (List Char)) : ∀ (i : Nat) (cs : List BuildConfig),
    pbcLoop i ls = .ok cs ↔
      All2 (fun l c => parseBuildConfig (trimSpace l) = .ok c) (ls.filter (fun l => trimSpace l ≠ [])) cs := by
  induction ls with
  | nil =>
    intro i cs
    simp only [pbcLoop, List.filter]
    constructor
    · intro h; cases h; exact All2.nil
    · intro h; cases h; rfl
  | cons l ls ih =>
    intro i cs
    by_cases h : trimSpace l = []
    · simp only [pbcLoop, h, if_true, List.filter, ne_eq, not_true_eq_false, decide_false]
      exact ih i cs
    · simp only [pbcLoop, h, if_false, List.filter, ne_eq, not_false_eq_true, decide_true]
      cases hp : parseBuildConfig (trimSpace l) with
      | error e =>
        simp only
        constructor
        · intro h'; cases h'
        · intro h'; cases h' with
          | cons hab _ => rw [hp] at hab; cases hab
      | ok c =>
        simp only
        cases hr : pbcLoop (i + 1) ls with
        | error e =>
          simp only
          constructor
          · intro h'; cases h'
          · intro h'
            cases h' with
            | cons hab hrest =>
              have := (ih (i + 1) _).mpr hrest
              rw [hr] at this; cases this
        | ok cs' =>
          simp only
          constructor
          · intro h'
            cases h'
            exact All2.cons hp ((ih (i + 1) cs').mp hr)
          · intro h'
            cases h' with
            | cons hab hrest =>
              have h1 := (ih (i + 1) _).mpr hrest
              rw [hr] at h1
              rw [hp] at hab
              cases h1; cases hab; rfl

/-- the lines that count: every piece trimmed, blank ones dropped -/
def trimmedLines (ls : List (List Char)) : List (List Char) :=
  (ls.map trimSpace).filter (fun t => t ≠ [])

/-- parsing the relevant lines one after the other; the first error wins and carries the
number of the configuration it would have been -/
def parseLines (i : Nat) : List (List Char) → Except (Nat × ParseErr) (List BuildConfig)
  | [] => .ok []
  | t :: rest =>
    match parseBuildConfig t with
    | .error e => .error (i + 1, e)
    | .ok c =>
      match parseLines (i + 1) rest with
      | .error e => .error e
      | .ok cs => .ok (c :: cs)

theorem pbcLoop_eq_parseLines (ls : List (List Char)) : ∀ i,
    pbcLoop i ls = parseLines i (trimmedLines ls) := by
  induction ls with
  | nil => intro i; rfl
  | cons l ls ih =>
    intro i
    by_cases h : trimSpace l = []
    · have e1 : pbcLoop i (l :: ls) = pbcLoop i ls := by simp only [pbcLoop, h, if_true]
      have e2 : trimmedLines (l :: ls) = trimmedLines ls := by
        simp only [trimmedLines, List.map_cons]
        rw [List.filter_cons_of_neg (by simp [h])]
      rw [e1, e2]; exact ih i
    · have e2 : trimmedLines (l :: ls) = trimSpace l :: trimmedLines ls := by
        simp only [trimmedLines, List.map_cons]
        rw [List.filter_cons_of_pos (by simp [h])]
      rw [e2]
      simp only [pbcLoop, h, if_false, parseLines]
      cases parseBuildConfig (trimSpace l) with
      | error e => rfl
      | ok c => simp only [ih]; rfl

theorem parseLines_ok_iff (ts : List (List Char)) : ∀ (i : Nat) (cs : List BuildConfig),
    parseLines i ts = .ok cs ↔ All2 (fun t c => parseBuildConfig t = .ok c) ts cs := by
  induction ts with
  | nil =>
    intro i cs
    simp only [parseLines]
    constructor
    · intro h; cases h; exact All2.nil
    · intro h; cases h; rfl
  | cons t ts ih =>
    intro i cs
    simp only [parseLines]
    cases hp : parseBuildConfig t with
    | error e =>
      simp only
      constructor
      · intro h'; cases h'
      · intro h'; cases h' with
        | cons hab _ => rw [hp] at hab; cases hab
    | ok c =>
      simp only
      cases hr : parseLines (i + 1) ts with
      | error e =>
        simp only
        constructor
        · intro h'; cases h'
        · intro h'
          cases h' with
          | cons hab hrest =>
            have := (ih (i + 1) _).mpr hrest
            rw [hr] at this; cases this
      | ok cs' =>
        simp only
        constructor
        · intro h'
          cases h'
          exact All2.cons hp ((ih (i + 1) cs').mp hr)
        · intro h'
          cases h' with
          | cons hab hrest =>
            have h1 := (ih (i + 1) _).mpr hrest
            rw [hr] at h1
            rw [hp] at hab
            cases h1; cases hab; rfl

deriving instance DecidableEq for Except

/-! ### single lines -/

theorem trimLeft_of_no_space (l : List Char) (h : ∀ c ∈ l, isSpaceC c = false) : trimLeft l = l := by
  cases l with
  | nil => rfl
  | cons c cs => simp [trimLeft, h c (by simp)]

theorem trimSpace_of_no_space (l : List Char) (h : ∀ c ∈ l, isSpaceC c = false) : trimSpace l = l := by
  unfold trimSpace
  rw [trimLeft_of_no_space l h, trimLeft_of_no_space l.reverse (by simpa using h)]
  simp

theorem isNameC_ne (c : Char) (h : isNameC c = true) : c ≠ ':' ∧ c ≠ ' ' ∧ c ≠ '"' := by
  refine ⟨?_, ?_, ?_⟩ <;> (rintro rfl; revert h; decide)

theorem indexColon_name (name rest : List Char) (h : ∀ c ∈ name, isNameC c = true) :
    indexColon (name ++ ':' :: rest) = some name.length := by
  induction name with
  | nil => simp [indexColon]
  | cons c cs ih =>
    have hc := (isNameC_ne c (h c (by simp))).1
    simp [indexColon, hc, ih (fun x hx => h x (List.mem_cons_of_mem _ hx))]

theorem cutColonSpace_name (name rest : List Char) (h : ∀ c ∈ name, isNameC c = true) :
    cutColonSpace (name ++ ':' :: ' ' :: rest) = some (name, rest) := by
  induction name with
  | nil => simp [cutColonSpace]
  | cons c cs ih =>
    have hc := (isNameC_ne c (h c (by simp))).1
    have ih' := ih (fun x hx => h x (List.mem_cons_of_mem _ hx))
    show cutColonSpace (c :: (cs ++ ':' :: ' ' :: rest)) = _
    unfold cutColonSpace
    split
    · rename_i heq; cases heq
    · rename_i heq
      simp only [List.cons.injEq] at heq
      exact absurd heq.1 hc
    · rename_i c' cs' _ heq
      simp only [List.cons.injEq] at heq
      obtain ⟨rfl, rfl⟩ := heq
      simp [ih']

/-- `name:` is the configuration `name` without flags or environment -/
theorem parseBuildConfig_bare (name : List Char) (h : ∀ c ∈ name, isNameC c = true) :
    parseBuildConfig (name ++ [':']) = .ok ⟨String.ofList name, [], []⟩ := by
  have hi := indexColon_name name [] h
  simp only [parseBuildConfig]
  rw [if_neg (by simp)]
  rw [if_pos (by rw [hi]; simp)]
  simpa [checkName] using h

theorem foldl_step_plain (w : List Char) (h : ∀ c ∈ w, c ≠ ' ' ∧ c ≠ '"') (st : PState) :
    w.foldl PState.step st = { st with buf := st.buf ++ w } := by
  induction w generalizing st with
  | nil => simp
  | cons c cs ih =>
    have hc := h c (by simp)
    rw [List.foldl_cons, ih (fun x hx => h x (List.mem_cons_of_mem _ hx))]
    simp [PState.step, hc.1, hc.2]

/-- `name: -flag` (one argument starting with `-`, no blanks or quotes in it) is the
configuration `name` with exactly that flag -/
theorem parseBuildConfig_flag (name arg : List Char) (hn : ∀ c ∈ name, isNameC c = true)
    (ha : ∀ c ∈ arg, isSpaceC c = false ∧ c ≠ '"') :
    parseBuildConfig (name ++ ':' :: ' ' :: '-' :: arg) = .ok ⟨String.ofList name, [], [String.ofList ('-' :: arg)]⟩ := by
  have hi := indexColon_name name (' ' :: '-' :: arg) hn
  have hcut := cutColonSpace_name name ('-' :: arg) hn
  have hns : ∀ c ∈ '-' :: arg, isSpaceC c = false := by
    intro c hc
    rcases List.mem_cons.mp hc with e | e
    · rw [e]; decide
    · exact (ha c e).1
  have hplain : ∀ c ∈ '-' :: arg, c ≠ ' ' ∧ c ≠ '"' := by
    intro c hc
    rcases List.mem_cons.mp hc with e | e
    · rw [e]; decide
    · refine ⟨?_, (ha c e).2⟩
      rintro rfl
      have := (ha ' ' e).1
      revert this; decide
  simp only [parseBuildConfig]
  rw [if_neg (by simp)]
  rw [if_neg (by rw [hi]; simp)]
  rw [hcut]
  simp only [parseArgs, trimSpace_of_no_space _ hns, foldl_step_plain _ hplain]
  simpa [PState.flush, checkName] using hn

end Verif.C12
