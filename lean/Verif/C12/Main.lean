import Verif.C12.Driver
def main : IO UInt32 := do
  Verif.Proto.runLines Verif.C12.step
  return 0
