import Verif.C12.Model
/-
C12 — model of what surrounds `mergeRuns` (core Lean only; compiled into the driver):

* `lessG`: the `less` closure of `printDiagnostics` for an arbitrary ORDER OF FIELDS (the
  order the current source uses is extracted into `Generated.lean`, tie G);
* `lintRun`: the part of `linter.lint` / `linter.run` that matters for merging — every
  analyzer diagnostic gets the merge strategy of its analyzer's documentation
  (`filtered[i].MergeIf = a.Doc.MergeIf`, lookup by case-folded category; categories
  without analyzer keep the zero value), U1000 problems are created with `MergeIfAll`,
  every diagnostic gets the configuration's name as `BuildName`;
* `binOut`: the `-f binary` branch of `Command.lint` — `CheckedFiles` and all positions
  made relative to the working directory (`filepath.Rel` + `ToSlash`), offsets cleared;
* `parseBuildConfigs` / `parseBuildConfig` (config.go): the `-matrix` line syntax;
* `matrixOutput`: `-matrix` = parse stdin, one `linter.run` per configuration, merge.

Strings that are taken apart (paths, matrix lines) are handled as `List Char` with
structural recursion so that closed examples reduce in the kernel.
-/
namespace Verif.C12

/-! ### the comparator for an arbitrary field order -/

inductive Field where
  | posFile | posLine | posCol | posOff | endFile | endLine | endCol | endOff | cat | msg
  | build | sev | mergeIf
deriving DecidableEq, Repr

/-- the ten fields of `diagnosticDescriptor` -/
def descFields : List Field :=
  [.posFile, .posLine, .posCol, .posOff, .endFile, .endLine, .endCol, .endOff, .cat, .msg]

def Field.isDesc : Field → Bool
  | .build | .sev | .mergeIf => false
  | _ => true

/-- every field is compared either as a string or as an integer; both are embedded in
`String × Int` ordered lexicographically (strings as `(s, 0)`, integers as `("", i)`),
which orders each kind exactly like Go's `<` on it -/
def Field.key : Field → Diag → String × Int
  | .posFile, d => (d.desc.pos.file, 0)
  | .posLine, d => ("", d.desc.pos.line)
  | .posCol, d => ("", d.desc.pos.col)
  | .posOff, d => ("", d.desc.pos.off)
  | .endFile, d => (d.desc.end_.file, 0)
  | .endLine, d => ("", d.desc.end_.line)
  | .endCol, d => ("", d.desc.end_.col)
  | .endOff, d => ("", d.desc.end_.off)
  | .cat, d => (d.desc.cat, 0)
  | .msg, d => (d.desc.msg, 0)
  | .build, d => (d.build, 0)
  | .sev, d => ("", Int.ofNat d.sev)
  | .mergeIf, d => ("", d.mergeIf)

def keyLess (a b : String × Int) : Bool :=
  decide (a.1 < b.1) || (decide (a.1 = b.1) && decide (a.2 < b.2))

/-- `if a.f1 != b.f1 { return a.f1 < b.f1 }; …; return a.fn < b.fn` -/
def lessG : List Field → Diag → Diag → Bool
  | [], _, _ => false
  | f :: fs, a, b => if f.key a ≠ f.key b then keyLess (f.key a) (f.key b) else lessG fs a b

/-- the order `Model.less` transliterates -/
def modelFields : List Field :=
  [.posFile, .posLine, .posCol, .msg, .cat, .endFile, .endLine, .endCol, .posOff, .endOff, .build]

/-- the condition under which a field order serves the de-duplication: every field of the
descriptor is compared before the first field that is not part of it -/
def DescFirst (fs : List Field) : Bool :=
  descFields.all fun f => (fs.takeWhile Field.isDesc).contains f

/-! ### linter.lint / linter.run: merge strategy and build name -/

/-- a problem as the runner / `unused` hands it to `linter.lint`, before `MergeIf` and
`BuildName` are set. `fromUnused`: created by the U1000 loop at the end of `lint`. -/
structure RawDiag where
  desc : Desc
  sev : Nat
  fromUnused : Bool
deriving DecidableEq, Repr

structure RawResult where
  checked : List String
  diags : List RawDiag

/-- the analyzers of the command with the `MergeIf` of their documentation; `l.analyzers`
is a map keyed by the case-folded name -/
abbrev Registry := List (String × Int)

/-- `a := l.analyzers[makeCaseFoldedString(diag.Category)]; if a != nil { MergeIf = a.Doc.MergeIf }`
(otherwise the zero value `MergeIfAny` stays) -/
def strategyOf (reg : Registry) (cat : String) : Int :=
  match reg.find? (fun e => foldCase e.1 = foldCase cat) with
  | some e => e.2
  | none => 0

def lintDiag (reg : Registry) (name : String) (d : RawDiag) : Diag :=
  { desc := d.desc, sev := d.sev,
    mergeIf := if d.fromUnused then 1 else strategyOf reg d.desc.cat,
    build := name }

/-- `linter.run bconf` as far as merging is concerned -/
def lintRun (reg : Registry) (name : String) (raw : RawResult) : LintResult :=
  { checked := raw.checked, diags := raw.diags.map (lintDiag reg name) }

/-! ### `-f binary`: relative paths, cleared offsets -/

/-- `strings.Split` on one separator character -/
def splitC (sep : Char) : List Char → List (List Char)
  | [] => [[]]
  | c :: cs =>
    if c = sep then [] :: splitC sep cs
    else match splitC sep cs with
      | [] => [[c]]
      | l :: ls => (c :: l) :: ls

/-- components of a clean slash-separated path -/
def comps (s : String) : List String :=
  ((splitC '/' s.toList).filter (· ≠ [])).map String.ofList

def isAbs (s : String) : Bool := s.toList.head? = some '/'

/-- `filepath.Rel` on the components of two clean absolute paths: drop the common
prefix, one `..` per remaining component of the base, then the rest of the target -/
def relComps : List String → List String → List String
  | b :: bs, t :: ts => if b = t then relComps bs ts else (b :: bs).map (fun _ => "..") ++ (t :: ts)
  | bs, ts => bs.map (fun _ => "..") ++ ts

/-- the `relPath` closure of `Command.lint` (cwd is absolute; `filepath.Rel` fails for a
non-absolute file name — in particular the empty one — and the name is kept) -/
def relPath (cwd s : String) : String :=
  if isAbs s && isAbs cwd then
    match relComps (comps cwd) (comps s) with
    | [] => "."
    | r => "/".intercalate r
  else s

def binPos (cwd : String) (p : Pos) : Pos := { p with file := relPath cwd p.file, off := 0 }

def binDiag (cwd : String) (d : Diag) : Diag :=
  { d with desc := { d.desc with pos := binPos cwd d.desc.pos, end_ := binPos cwd d.desc.end_ } }

/-- what `-f binary` writes for one run -/
def binOut (cwd : String) (res : LintResult) : LintResult :=
  { checked := res.checked.map (relPath cwd), diags := res.diags.map (binDiag cwd) }

/-! ### the `-matrix` line syntax (config.go) -/

structure BuildConfig where
  name : String
  envs : List String
  flags : List String
deriving DecidableEq, Repr

inductive ParseErr where
  | empty            -- "couldn't parse empty build config"
  | missingName      -- "missing build name"
  | unterminated     -- "unterminated quoted string"
  | invalidName      -- "invalid build name %q"
deriving DecidableEq, Repr

/-- `unicode.IsSpace` on ASCII (what `strings.TrimSpace` strips) -/
def isSpaceC (c : Char) : Bool :=
  c = ' ' || c = '\t' || c = '\n' || c = '\x0b' || c = '\x0c' || c = '\r'

def trimLeft : List Char → List Char
  | [] => []
  | c :: cs => if isSpaceC c then trimLeft cs else c :: cs

def trimSpace (l : List Char) : List Char := (trimLeft (trimLeft l).reverse).reverse

/-- `r == '_' || unicode.IsLetter(r) || unicode.IsNumber(r)` on ASCII -/
def isNameC (c : Char) : Bool := c = '_' || c.isAlpha || c.isDigit

/-- `strings.Cut(line, ": ")` -/
def cutColonSpace : List Char → Option (List Char × List Char)
  | [] => none
  | ':' :: ' ' :: rest => some ([], rest)
  | c :: cs => (cutColonSpace cs).map fun (b, a) => (c :: b, a)

/-- `strings.Index(line, ":")` -/
def indexColon : List Char → Option Nat
  | [] => none
  | c :: cs => if c = ':' then some 0 else (indexColon cs).map (· + 1)

/-- loop state of the argument splitter: `buf`, `inQuote`, whether `args` already points
at `flags`, and the two result lists -/
structure PState where
  buf : List Char
  inQuote : Bool
  toFlags : Bool
  envs : List String
  flags : List String

/-- `if buf[0] == '-' { args = &flags }; *args = append(*args, string(buf)); buf = buf[:0]` -/
def PState.flush (st : PState) : PState :=
  let tf := st.toFlags || st.buf.head? = some '-'
  if tf then { st with buf := [], toFlags := true, flags := st.flags ++ [String.ofList st.buf] }
  else { st with buf := [], envs := st.envs ++ [String.ofList st.buf] }

def PState.step (st : PState) (r : Char) : PState :=
  if r = ' ' then
    if st.inQuote then { st with buf := st.buf ++ [r] }
    else if st.buf ≠ [] then st.flush else st
  else if r = '"' then { st with inQuote := !st.inQuote }
  else { st with buf := st.buf ++ [r] }

def parseArgs (after : List Char) : Except ParseErr (List String × List String) :=
  let st := (trimSpace after).foldl PState.step ⟨[], false, false, [], []⟩
  if st.buf ≠ [] then
    if st.inQuote then .error .unterminated
    else let st := st.flush; .ok (st.envs, st.flags)
  else .ok (st.envs, st.flags)

def checkName (name : List Char) (envs flags : List String) : Except ParseErr BuildConfig :=
  if name.all isNameC then .ok ⟨String.ofList name, envs, flags⟩ else .error .invalidName

/-- `parseBuildConfig` -/
def parseBuildConfig (line : List Char) : Except ParseErr BuildConfig :=
  if line = [] then .error .empty
  else if indexColon line = some (line.length - 1) then
    checkName line.dropLast [] []
  else match cutColonSpace line with
    | none => .error .missingName
    | some (before, after) =>
      match parseArgs after with
      | .error e => .error e
      | .ok (envs, flags) => checkName before envs flags

/-- the loop of `parseBuildConfigs` over the pieces `ReadString('\n')` returns (the last
piece is the one returned together with io.EOF, possibly empty); `i` counts the
configurations parsed so far, an error is reported for "line" `i + 1` -/
def pbcLoop (i : Nat) : List (List Char) → Except (Nat × ParseErr) (List BuildConfig)
  | [] => .ok []
  | l :: rest =>
    let t := trimSpace l
    if t = [] then pbcLoop i rest
    else match parseBuildConfig t with
      | .error e => .error (i + 1, e)
      | .ok c =>
        match pbcLoop (i + 1) rest with
        | .error e => .error e
        | .ok cs => .ok (c :: cs)

/-- `parseBuildConfigs` on the bytes of stdin -/
def parseBuildConfigs (stdin : List Char) : Except (Nat × ParseErr) (List BuildConfig) :=
  pbcLoop 0 (splitC '\n' stdin)

/-! ### `-matrix` and the `-f binary | -merge` pipeline -/

/-- the runs `Command.lint` merges for a build matrix: one `linter.run` per configuration;
`lintOf` is the runner (what it finds depends on the configuration's flags and
environment, not on its name) -/
def matrixRuns (reg : Registry) (lintOf : List String → List String → RawResult)
    (cfgs : List BuildConfig) : List Run :=
  cfgs.map fun c => runFromLintResult (lintRun reg c.name (lintOf c.envs c.flags))

/-- `staticcheck -matrix` (text/json formats): parse stdin, lint per configuration, merge -/
def matrixOutput (reg : Registry) (lintOf : List String → List String → RawResult)
    (stdin : List Char) : Except (Nat × ParseErr) (List (Desc × List String)) :=
  match parseBuildConfigs stdin with
  | .error e => .error e
  | .ok cfgs => .ok (output (matrixRuns reg lintOf cfgs))

/-- one `staticcheck -f binary` invocation (working directory, build name, findings)
followed by decoding in `staticcheck -merge` -/
def binaryRun (reg : Registry) (cwd name : String) (raw : RawResult) : Run :=
  runFromLintResult (binOut cwd (lintRun reg name raw))

end Verif.C12
