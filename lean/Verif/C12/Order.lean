import Verif.C12.Lemmas
import Verif.C12.Pipeline
/-
C12 — the comparator for an arbitrary field order (`lessG`), and the de-duplication on
lists sorted for ANY comparator that decides by the descriptor first.

Result: whatever order of fields the `less` closure of `printDiagnostics` uses, as long
as all ten descriptor fields are compared before the first other field (`DescFirst`),
sorting + de-duplication print the same set of lines as the model's `output`.
-/
namespace Verif.C12

/-! ### lexicographic order by a list of keys into `String × Int` -/

abbrev K := String × Int

def kLtK : K → K → Prop := lexLt sLt iLt

theorem sto_K : STO kLtK := sto_sLt.lex sto_iLt

theorem keyLess_iff (a b : K) : keyLess a b = true ↔ kLtK a b := by
  simp [keyLess, kLtK, lexLt, sLt, iLt]

def lexL {α : Type} : List (α → K) → α → α → Prop
  | [], _, _ => False
  | k :: ks, a, b => kLtK (k a) (k b) ∨ (k a = k b ∧ lexL ks a b)

theorem lexL_irrefl {α : Type} (ks : List (α → K)) (a : α) : ¬ lexL ks a a := by
  induction ks with
  | nil => simp [lexL]
  | cons k ks ih =>
    intro h
    rcases h with h | ⟨_, h⟩
    · exact sto_K.irrefl _ h
    · exact ih h

theorem lexL_trans {α : Type} (ks : List (α → K)) (a b c : α) :
    lexL ks a b → lexL ks b c → lexL ks a c := by
  induction ks with
  | nil => intro h; cases h
  | cons k ks ih =>
    intro h1 h2
    rcases h1 with h1 | ⟨e1, h1⟩ <;> rcases h2 with h2 | ⟨e2, h2⟩
    · exact Or.inl (sto_K.trans _ _ _ h1 h2)
    · exact Or.inl (e2 ▸ h1)
    · exact Or.inl (e1 ▸ h2)
    · exact Or.inr ⟨e1.trans e2, ih h1 h2⟩

theorem lexL_tri {α : Type} (ks : List (α → K)) (a b : α) :
    lexL ks a b ∨ (∀ k ∈ ks, k a = k b) ∨ lexL ks b a := by
  induction ks with
  | nil => right; left; intro k hk; cases hk
  | cons k ks ih =>
    rcases sto_K.tri (k a) (k b) with h | h | h
    · exact Or.inl (Or.inl h)
    · rcases ih with t | t | t
      · exact Or.inl (Or.inr ⟨h, t⟩)
      · right; left
        intro k' hk'
        rcases List.mem_cons.mp hk' with e | e
        · rw [e]; exact h
        · exact t k' e
      · exact Or.inr (Or.inr (Or.inr ⟨h.symm, t⟩))
    · exact Or.inr (Or.inr (Or.inl h))

theorem lexL_append_left {α : Type} (ks ks' : List (α → K)) (a b : α) :
    lexL ks a b → lexL (ks ++ ks') a b := by
  induction ks with
  | nil => intro h; cases h
  | cons k ks ih =>
    intro h
    rcases h with h | ⟨e, h⟩
    · exact Or.inl h
    · exact Or.inr ⟨e, ih h⟩

theorem lexL_congr {α : Type} (ks : List (α → K)) (a b a' b' : α)
    (h : ∀ k ∈ ks, k a = k a' ∧ k b = k b') : lexL ks a b ↔ lexL ks a' b' := by
  induction ks with
  | nil => simp [lexL]
  | cons k ks ih =>
    have hk := h k (by simp)
    have ih' := ih (fun k' hk' => h k' (List.mem_cons_of_mem _ hk'))
    simp only [lexL, hk.1, hk.2, ih']

theorem lessG_iff (fs : List Field) (a b : Diag) :
    lessG fs a b = true ↔ lexL (fs.map Field.key) a b := by
  induction fs with
  | nil => simp [lessG, lexL]
  | cons f fs ih =>
    simp only [lessG, List.map_cons, lexL]
    by_cases e : f.key a = f.key b
    · simp only [e, ne_eq, not_true_eq_false, if_false, ih]
      constructor
      · intro h; exact Or.inr ⟨trivial, h⟩
      · rintro (h | ⟨_, h⟩)
        · exact absurd h (sto_K.irrefl _)
        · exact h
    · simp only [ne_eq, e, not_false_eq_true, if_true, keyLess_iff]
      constructor
      · intro h; exact Or.inl h
      · rintro (h | ⟨h, _⟩)
        · exact h
        · first | exact absurd h e | exact h.elim

/-! ### the descriptor order induced by a descriptor-first field order -/

/-- a diagnostic carrying descriptor `k` (the other fields do not matter) -/
def mkD (k : Desc) : Diag := ⟨k, 0, 0, ""⟩

theorem key_desc (f : Field) (h : f.isDesc = true) (d : Diag) : f.key d = f.key (mkD d.desc) := by
  cases f <;> simp_all [Field.isDesc, Field.key, mkD]

def dltG (pre : List Field) (k k' : Desc) : Prop := lexL (pre.map Field.key) (mkD k) (mkD k')

theorem desc_of_keys (pre : List Field) (hcov : ∀ f ∈ descFields, f ∈ pre) (k k' : Desc)
    (h : ∀ f ∈ pre, f.key (mkD k) = f.key (mkD k')) : k = k' := by
  have h1 := h .posFile (hcov _ (by simp [descFields]))
  have h2 := h .posLine (hcov _ (by simp [descFields]))
  have h3 := h .posCol (hcov _ (by simp [descFields]))
  have h4 := h .posOff (hcov _ (by simp [descFields]))
  have h5 := h .endFile (hcov _ (by simp [descFields]))
  have h6 := h .endLine (hcov _ (by simp [descFields]))
  have h7 := h .endCol (hcov _ (by simp [descFields]))
  have h8 := h .endOff (hcov _ (by simp [descFields]))
  have h9 := h .cat (hcov _ (by simp [descFields]))
  have h10 := h .msg (hcov _ (by simp [descFields]))
  simp only [Field.key, mkD, Prod.mk.injEq, and_true, true_and] at h1 h2 h3 h4 h5 h6 h7 h8 h9 h10
  rcases k with ⟨⟨f, o, l, c⟩, ⟨ef, eo, el, ec⟩, cat, msg⟩
  rcases k' with ⟨⟨f', o', l', c'⟩, ⟨ef', eo', el', ec'⟩, cat', msg'⟩
  simp only at h1 h2 h3 h4 h5 h6 h7 h8 h9 h10
  simp [h1, h2, h3, h4, h5, h6, h7, h8, h9, h10]

theorem sto_dltG (pre : List Field) (hcov : ∀ f ∈ descFields, f ∈ pre) : STO (dltG pre) := by
  constructor
  · intro a; exact lexL_irrefl _ _
  · intro a b c; exact lexL_trans _ _ _ _
  · intro a b
    rcases lexL_tri (pre.map Field.key) (mkD a) (mkD b) with h | h | h
    · exact Or.inl h
    · right; left
      apply desc_of_keys pre hcov
      intro f hf
      exact h (Field.key f) (List.mem_map.mpr ⟨f, hf, rfl⟩)
    · exact Or.inr (Or.inr h)

theorem pred_of_mem_takeWhile {α : Type} (p : α → Bool) (l : List α) (x : α)
    (h : x ∈ l.takeWhile p) : p x = true := by
  induction l with
  | nil => simp at h
  | cons y ys ih =>
    rw [List.takeWhile_cons] at h
    split at h
    · rcases List.mem_cons.mp h with e | e
      · rw [e]; assumption
      · exact ih e
    · simp at h

/-- what `DescFirst` gives: a split of the field list into descriptor fields covering the
whole descriptor, and a rest -/
theorem descFirst_split (fs : List Field) (h : DescFirst fs = true) :
    ∃ pre post, fs = pre ++ post ∧ (∀ f ∈ pre, f.isDesc = true) ∧ (∀ f ∈ descFields, f ∈ pre) := by
  refine ⟨fs.takeWhile Field.isDesc, fs.dropWhile Field.isDesc, (List.takeWhile_append_dropWhile).symm, ?_, ?_⟩
  · intro f hf; exact pred_of_mem_takeWhile _ _ _ hf
  · intro f hf
    simp only [DescFirst, List.all_eq_true] at h
    have := h f hf
    simpa using this

/-- a descriptor-first comparator decides by a strict total order on descriptors first -/
theorem lessG_desc_first (fs : List Field) (h : DescFirst fs = true) :
    ∃ dlt : Desc → Desc → Prop, STO dlt ∧ ∀ a b : Diag, dlt a.desc b.desc → lessG fs a b = true := by
  obtain ⟨pre, post, hfs, hdesc, hcov⟩ := descFirst_split fs h
  refine ⟨dltG pre, sto_dltG pre hcov, ?_⟩
  intro a b hab
  rw [lessG_iff, hfs, List.map_append]
  apply lexL_append_left
  refine (lexL_congr (pre.map Field.key) a b (mkD a.desc) (mkD b.desc) ?_).mpr hab
  intro k hk
  rcases List.mem_map.mp hk with ⟨f, hf, rfl⟩
  exact ⟨key_desc f (hdesc f hf) a, key_desc f (hdesc f hf) b⟩

/-! ### the de-duplication loop on a list sorted for a descriptor-first comparator -/

/-- `sort.Slice` postcondition for a comparator `lt` -/
def SortedBy (lt : Diag → Diag → Prop) (l : List Diag) : Prop := l.Pairwise (fun a b => ¬ lt b a)

theorem dedup_keys_sortedG (dlt : Desc → Desc → Prop) (hd : STO dlt) (lt : Diag → Diag → Prop)
    (hlt : ∀ a b : Diag, dlt a.desc b.desc → lt a b) (rest : List Diag) :
    ∀ (cur : Diag) (names : List String), SortedBy lt (cur :: rest) →
    (okeys (obs (dedupLoop cur names rest))).Pairwise dlt ∧
    ∀ k ∈ okeys (obs (dedupLoop cur names rest)), k = cur.desc ∨ dlt cur.desc k := by
  induction rest with
  | nil => intro cur names _; simp [dedupLoop, okeys]
  | cons d ds ih =>
    intro cur names hs
    have hhead := (List.pairwise_cons.mp hs).1
    have htail := (List.pairwise_cons.mp hs).2
    have hdrop : SortedBy lt (cur :: ds) :=
      List.pairwise_cons.mpr ⟨fun x hx => hhead x (List.mem_cons_of_mem _ hx), (List.pairwise_cons.mp htail).2⟩
    unfold dedupLoop
    split
    · exact ih cur names hdrop
    · split
      · exact ih cur _ hdrop
      · rename_i _ hne
        have ⟨ihp, ihb⟩ := ih d [d.build] htail
        have hdc : ¬ lt d cur := hhead d (by simp)
        have hlt' : dlt cur.desc d.desc := by
          rcases hd.tri cur.desc d.desc with t | t | t
          · exact t
          · exact absurd t hne
          · exact absurd (hlt _ _ t) hdc
        have hall : ∀ k ∈ okeys (obs (dedupLoop d [d.build] ds)), dlt cur.desc k := by
          intro k hk
          rcases ihb k hk with e | e
          · rw [e]; exact hlt'
          · exact hd.trans _ _ _ hlt' e
        simp only [okeys, obs_cons, List.map_cons] at *
        refine ⟨List.pairwise_cons.mpr ⟨hall, ihp⟩, ?_⟩
        intro k hk
        rcases List.mem_cons.mp hk with e | e
        · exact Or.inl e
        · exact Or.inr (hall k e)

theorem unique_entry_of_pairwise {r : Desc → Desc → Prop} (irr : ∀ a, ¬ r a a)
    {o : List (Desc × List String)} (h : (okeys o).Pairwise r)
    {k : Desc} {ns ns' : List String} (h1 : (k, ns) ∈ o) (h2 : (k, ns') ∈ o) : ns = ns' := by
  induction o with
  | nil => cases h1
  | cons e t ih =>
    simp only [okeys, List.map_cons] at h
    have hh := (List.pairwise_cons.mp h).1
    have ht := (List.pairwise_cons.mp h).2
    have no : ∀ ms, (k, ms) ∈ t → e.1 = k → False := by
      intro ms hm ek
      have := hh k (List.mem_map.mpr ⟨(k, ms), hm, rfl⟩)
      rw [ek] at this
      exact irr _ this
    rcases List.mem_cons.mp h1 with e1 | e1 <;> rcases List.mem_cons.mp h2 with e2 | e2
    · rw [← e1] at e2; simp only [Prod.mk.injEq] at e2; exact e2.2.symm
    · exact absurd (by rw [← e1]) (no ns' e2)
    · exact absurd (by rw [← e2]) (no ns e1)
    · exact ih ht e1 e2

/-- printCore on a list sorted for a descriptor-first comparator: one line per descriptor -/
theorem printCore_keys_pairwiseG (dlt : Desc → Desc → Prop) (hd : STO dlt) (lt : Diag → Diag → Prop)
    (hlt : ∀ a b : Diag, dlt a.desc b.desc → lt a b) {s : List Diag} (hs : SortedBy lt s) :
    (okeys (obs (printCore s))).Pairwise dlt := by
  cases s with
  | nil => simp [printCore, okeys]
  | cons d ds => exact (dedup_keys_sortedG dlt hd lt hlt ds d [d.build] hs).1

theorem printCore_names_sorted (s : List Diag) : ∀ e ∈ obs (printCore s), e.2.Pairwise sLt := by
  cases s with
  | nil => simp [printCore]
  | cons d ds => exact dedup_names_sorted ds d [d.build] (by simp)

end Verif.C12
