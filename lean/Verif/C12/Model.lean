/-
C12 — model of lintcmd's run merging (cmd.go: diagnosticDescriptor, runFromLintResult,
mergeRuns, and the sort + de-duplication + build-name union at the top of
printDiagnostics; lint.go: diagnostic.equal).  Core Lean only.

Go maps are modelled as association lists; nothing below depends on their order,
because the theorems quantify over *every* permutation of mergeRuns' result that is
sorted for the comparator (`sort.Slice` is not stable and `mergeRuns` ranges over maps).
-/
namespace Verif.C12

/-- `token.Position` -/
structure Pos where
  file : String
  off : Int
  line : Int
  col : Int
deriving DecidableEq, Repr

/-- `diagnosticDescriptor`: what identifies a problem. -/
structure Desc where
  pos : Pos
  end_ : Pos
  cat : String
  msg : String
deriving DecidableEq, Repr

/-- `diagnostic`, without Related/SuggestedFixes (not touched by merging).
`mergeIf`: 0 = `lint.MergeIfAny`, 1 = `lint.MergeIfAll`. -/
structure Diag where
  desc : Desc
  sev : Nat
  mergeIf : Int
  build : String
deriving DecidableEq, Repr

/-- `lintResult` as decoded from one gob stream of `-f binary`. -/
structure LintResult where
  checked : List String
  diags : List Diag

/-- `run`: `checkedFiles` (a set) and `diagnostics` (a map keyed by descriptor). -/
structure Run where
  checked : List String
  diags : List Diag

/-- `m[d.descriptor()] = d` on an association list. -/
def mapSet : List Diag → Diag → List Diag
  | [], d => [d]
  | x :: xs, d => if x.desc = d.desc then d :: xs else x :: mapSet xs d

/-- `runFromLintResult`: later diagnostics overwrite earlier ones with the same descriptor. -/
def runFromLintResult (res : LintResult) : Run :=
  { checked := res.checked, diags := res.diags.foldl mapSet [] }

/-- `_, ok := r.diagnostics[k]` -/
def Run.has (r : Run) (k : Desc) : Bool := r.diags.any (fun d => d.desc = k)

/-- the `MergeIfAll` loop of `mergeRuns`: every run that checked the file reported it -/
def keepAll (runs : List Run) (d : Diag) : Bool :=
  runs.all fun r => !(r.checked.contains d.desc.pos.file) || r.has d.desc

/-- the `switch diag.MergeIf` of `mergeRuns` (no default case: other values are dropped) -/
def relevant (runs : List Run) (d : Diag) : Bool :=
  if d.mergeIf = 0 then true
  else if d.mergeIf = 1 then keepAll runs d
  else false

/-- `mergeRuns` -/
def mergeRuns (runs : List Run) : List Diag :=
  runs.flatMap fun r => r.diags.filter (relevant runs)

/-- the `less` closure passed to `sort.Slice` in `printDiagnostics` (after fix 7e8d496) -/
def less (a b : Diag) : Bool :=
  if a.desc.pos.file ≠ b.desc.pos.file then decide (a.desc.pos.file < b.desc.pos.file)
  else if a.desc.pos.line ≠ b.desc.pos.line then decide (a.desc.pos.line < b.desc.pos.line)
  else if a.desc.pos.col ≠ b.desc.pos.col then decide (a.desc.pos.col < b.desc.pos.col)
  else if a.desc.msg ≠ b.desc.msg then decide (a.desc.msg < b.desc.msg)
  else if a.desc.cat ≠ b.desc.cat then decide (a.desc.cat < b.desc.cat)
  else if a.desc.end_.file ≠ b.desc.end_.file then decide (a.desc.end_.file < b.desc.end_.file)
  else if a.desc.end_.line ≠ b.desc.end_.line then decide (a.desc.end_.line < b.desc.end_.line)
  else if a.desc.end_.col ≠ b.desc.end_.col then decide (a.desc.end_.col < b.desc.end_.col)
  else if a.desc.pos.off ≠ b.desc.pos.off then decide (a.desc.pos.off < b.desc.pos.off)
  else if a.desc.end_.off ≠ b.desc.end_.off then decide (a.desc.end_.off < b.desc.end_.off)
  else decide (a.build < b.build)

/-- `makeCaseFoldedString` (`strings.ToLower`; ASCII letters here), as the list of folded
characters — only equality of folded names is ever used -/
def foldCase (s : String) : List Char := s.toList.map Char.toLower

/-- `diagnostic.equal` -/
def Diag.equal (p o : Diag) : Bool :=
  p.desc.pos = o.desc.pos && p.desc.end_ = o.desc.end_ && p.desc.msg = o.desc.msg &&
  foldCase p.desc.cat = foldCase o.desc.cat && p.sev = o.sev && p.mergeIf = o.mergeIf &&
  p.build = o.build

/-- `builds[i][name] = struct{}{}`: the set of build names of one output line, kept as its
strictly increasing list (what `sort.Strings` over the map's keys yields at the end). -/
def insName (n : String) : List String → List String
  | [] => [n]
  | x :: xs => if n < x then n :: x :: xs else if n = x then x :: xs else x :: insName n xs

/-- the de-duplication loop over `diagnostics[1:]`; `cur`/`names` are
`filtered[len(filtered)-1]` and `builds[len(filtered)-1]` -/
def dedupLoop (cur : Diag) (names : List String) : List Diag → List (Diag × List String)
  | [] => [(cur, names)]
  | d :: ds =>
    if cur.equal d then dedupLoop cur names ds
    else if cur.desc = d.desc then dedupLoop cur (insName d.build names) ds
    else (cur, names) :: dedupLoop d [d.build] ds

/-- sort result ↦ `filtered` with the build-name set of each entry. For fewer than two
diagnostics Go skips the block; that is the same as running it. -/
def printCore : List Diag → List (Diag × List String)
  | [] => []
  | d :: ds => dedupLoop d [d.build] ds

/-- `strings.Join(names, ",")` -/
def joinNames (ns : List String) : String := ",".intercalate ns

/-- the diagnostics handed to the formatter -/
def printed (sorted : List Diag) : List Diag :=
  (printCore sorted).map fun (d, ns) => { d with build := joinNames ns }

/-- what the property talks about: descriptor and build names of every printed line -/
def obs (o : List (Diag × List String)) : List (Desc × List String) :=
  o.map fun (d, ns) => (d.desc, ns)

/-- one particular sort (insertion sort for `less`) -/
def insSorted (a : Diag) : List Diag → List Diag
  | [] => [a]
  | b :: t => if less b a then b :: insSorted a t else a :: b :: t

def sortDiags : List Diag → List Diag
  | [] => []
  | a :: t => insSorted a (sortDiags t)

/-- `-merge` / `-matrix` as observed: kept problems with their build names -/
def output (runs : List Run) : List (Desc × List String) :=
  obs (printCore (sortDiags (mergeRuns runs)))

end Verif.C12
