import Verif.C12.Model
/-
C12 — helper lemmas: strict total orders and lexicographic products, the comparator
`less` as a lexicographic order whose prefix is the descriptor, insertion of build
names, the de-duplication loop, canonical forms.
-/
namespace Verif.C12

/-! ### strict total orders -/

structure STO {α : Type} (r : α → α → Prop) : Prop where
  irrefl : ∀ a, ¬ r a a
  trans : ∀ a b c, r a b → r b c → r a c
  tri : ∀ a b, r a b ∨ a = b ∨ r b a

theorem STO.asymm {α : Type} {r : α → α → Prop} (h : STO r) {a b : α} (hab : r a b) : ¬ r b a :=
  fun hba => h.irrefl a (h.trans _ _ _ hab hba)

def lexLt {α β : Type} (r1 : α → α → Prop) (r2 : β → β → Prop) (a b : α × β) : Prop :=
  r1 a.1 b.1 ∨ (a.1 = b.1 ∧ r2 a.2 b.2)

theorem STO.lex {α β : Type} {r1 : α → α → Prop} {r2 : β → β → Prop}
    (h1 : STO r1) (h2 : STO r2) : STO (lexLt r1 r2) := by
  constructor
  · intro a h
    rcases h with h | ⟨_, h⟩
    · exact h1.irrefl _ h
    · exact h2.irrefl _ h
  · intro a b c hab hbc
    rcases hab with h | ⟨e, h⟩ <;> rcases hbc with h' | ⟨e', h'⟩
    · exact Or.inl (h1.trans _ _ _ h h')
    · exact Or.inl (e' ▸ h)
    · exact Or.inl (e ▸ h')
    · exact Or.inr ⟨e.trans e', h2.trans _ _ _ h h'⟩
  · intro a b
    rcases h1.tri a.1 b.1 with h | h | h
    · exact Or.inl (Or.inl h)
    · rcases h2.tri a.2 b.2 with h' | h' | h'
      · exact Or.inl (Or.inr ⟨h, h'⟩)
      · exact Or.inr (Or.inl (Prod.ext h h'))
      · exact Or.inr (Or.inr (Or.inr ⟨h.symm, h'⟩))
    · exact Or.inr (Or.inr (Or.inl h))

theorem STO.comap {α β : Type} {r : β → β → Prop} (h : STO r) (f : α → β)
    (hf : ∀ a b, f a = f b → a = b) : STO (fun a b => r (f a) (f b)) := by
  constructor
  · intro a; exact h.irrefl _
  · intro a b c; exact h.trans _ _ _
  · intro a b
    rcases h.tri (f a) (f b) with h' | h' | h'
    · exact Or.inl h'
    · exact Or.inr (Or.inl (hf _ _ h'))
    · exact Or.inr (Or.inr h')

def sLt (a b : String) : Prop := a < b
def iLt (a b : Int) : Prop := a < b

theorem sto_sLt : STO sLt := by
  constructor
  · intro a; exact String.lt_irrefl a
  · intro a b c; exact String.lt_trans
  · intro a b
    by_cases h1 : a < b
    · exact Or.inl h1
    · by_cases h2 : b < a
      · exact Or.inr (Or.inr h2)
      · exact Or.inr (Or.inl (String.le_antisymm (String.not_lt.mp h2) (String.not_lt.mp h1)))

theorem sto_iLt : STO iLt := by
  constructor
  · intro a; unfold iLt; omega
  · intro a b c; unfold iLt; omega
  · intro a b; unfold iLt; omega

/-! ### the descriptor order (fields in the order `less` compares them) -/

abbrev DKey := String × Int × Int × String × String × String × Int × Int × Int × Int

def Desc.key (k : Desc) : DKey :=
  (k.pos.file, k.pos.line, k.pos.col, k.msg, k.cat, k.end_.file, k.end_.line, k.end_.col,
   k.pos.off, k.end_.off)

def keyLt : DKey → DKey → Prop :=
  lexLt sLt (lexLt iLt (lexLt iLt (lexLt sLt (lexLt sLt (lexLt sLt (lexLt iLt (lexLt iLt
    (lexLt iLt iLt))))))))

/-- strict total order on descriptors induced by the comparator -/
def descLt (a b : Desc) : Prop := keyLt a.key b.key

theorem Desc.key_inj (a b : Desc) (h : a.key = b.key) : a = b := by
  rcases a with ⟨⟨f, o, l, c⟩, ⟨ef, eo, el, ec⟩, cat, msg⟩
  rcases b with ⟨⟨f', o', l', c'⟩, ⟨ef', eo', el', ec'⟩, cat', msg'⟩
  simp only [Desc.key, Prod.mk.injEq] at h
  simp [h]

theorem sto_keyLt : STO keyLt :=
  sto_sLt.lex (sto_iLt.lex (sto_iLt.lex (sto_sLt.lex (sto_sLt.lex (sto_sLt.lex (sto_iLt.lex
    (sto_iLt.lex (sto_iLt.lex sto_iLt))))))))

theorem sto_descLt : STO descLt := sto_keyLt.comap Desc.key Desc.key_inj

/-- order on (descriptor, build name): descriptor first -/
def kLt : Desc × String → Desc × String → Prop := lexLt descLt sLt

theorem sto_kLt : STO kLt := sto_descLt.lex sto_sLt

def Diag.kk (d : Diag) : Desc × String := (d.desc, d.build)

theorem step_iff {α : Type} [DecidableEq α] [LT α] [DecidableLT α] (x y : α) (irr : ¬ x < x)
    (rest : Bool) (P : Prop) (h : rest = true ↔ P) :
    ((if x ≠ y then decide (x < y) else rest) = true) ↔ (x < y ∨ (x = y ∧ P)) := by
  by_cases e : x = y
  · subst e; simp [irr, h]
  · simp [e]

theorem desc_eq_iff (a b : Desc) : a = b ↔
    (a.pos.file = b.pos.file ∧ a.pos.line = b.pos.line ∧ a.pos.col = b.pos.col ∧ a.msg = b.msg ∧
     a.cat = b.cat ∧ a.end_.file = b.end_.file ∧ a.end_.line = b.end_.line ∧
     a.end_.col = b.end_.col ∧ a.pos.off = b.pos.off ∧ a.end_.off = b.end_.off) := by
  constructor
  · intro h; subst h; simp
  · intro h
    apply Desc.key_inj
    simp [Desc.key, h]

/-- The comparator is the lexicographic order "descriptor, then build name". -/
theorem less_iff_kLt (a b : Diag) : less a b = true ↔ kLt a.kk b.kk := by
  have hs := String.lt_irrefl
  have hi : ∀ x : Int, ¬ x < x := fun x => by omega
  have h := step_iff a.desc.pos.file b.desc.pos.file (hs _) _ _ <|
    step_iff a.desc.pos.line b.desc.pos.line (hi _) _ _ <|
    step_iff a.desc.pos.col b.desc.pos.col (hi _) _ _ <|
    step_iff a.desc.msg b.desc.msg (hs _) _ _ <|
    step_iff a.desc.cat b.desc.cat (hs _) _ _ <|
    step_iff a.desc.end_.file b.desc.end_.file (hs _) _ _ <|
    step_iff a.desc.end_.line b.desc.end_.line (hi _) _ _ <|
    step_iff a.desc.end_.col b.desc.end_.col (hi _) _ _ <|
    step_iff a.desc.pos.off b.desc.pos.off (hi _) _ _ <|
    step_iff a.desc.end_.off b.desc.end_.off (hi _) (decide (a.build < b.build)) (a.build < b.build)
      (by simp)
  unfold less
  rw [h]
  simp only [kLt, lexLt, Diag.kk, descLt, keyLt, Desc.key, sLt, iLt, desc_eq_iff]
  by_cases e1 : a.desc.pos.file = b.desc.pos.file <;> simp [e1]
  by_cases e2 : a.desc.pos.line = b.desc.pos.line <;> simp [e2]
  by_cases e3 : a.desc.pos.col = b.desc.pos.col <;> simp [e3]
  by_cases e4 : a.desc.msg = b.desc.msg <;> simp [e4]
  by_cases e5 : a.desc.cat = b.desc.cat <;> simp [e5]
  by_cases e6 : a.desc.end_.file = b.desc.end_.file <;> simp [e6]
  by_cases e7 : a.desc.end_.line = b.desc.end_.line <;> simp [e7]
  by_cases e8 : a.desc.end_.col = b.desc.end_.col <;> simp [e8]
  by_cases e9 : a.desc.pos.off = b.desc.pos.off <;> simp [e9]

theorem less_false_iff (a b : Diag) : less a b = false ↔ ¬ kLt a.kk b.kk := by
  rw [← less_iff_kLt]; simp

/-- `sort.Slice` postcondition: no later element is `less` than an earlier one. -/
def Sorted (l : List Diag) : Prop := l.Pairwise (fun a b => less b a = false)

theorem Sorted.tail {a : Diag} {l : List Diag} (h : Sorted (a :: l)) : Sorted l :=
  (List.pairwise_cons.mp h).2

theorem Sorted.head {a : Diag} {l : List Diag} (h : Sorted (a :: l)) :
    ∀ x ∈ l, less x a = false := (List.pairwise_cons.mp h).1

theorem Sorted.drop2 {a b : Diag} {l : List Diag} (h : Sorted (a :: b :: l)) : Sorted (a :: l) := by
  have h1 := h.head
  have h2 := h.tail.tail
  exact List.pairwise_cons.mpr ⟨fun x hx => h1 x (List.mem_cons_of_mem _ hx), h2⟩

/-- negative transitivity of the comparator -/
theorem less_false_trans {a b c : Diag} (h1 : less b a = false) (h2 : less c b = false) :
    less c a = false := by
  rw [less_false_iff] at *
  intro h
  rcases sto_kLt.tri c.kk b.kk with t | t | t
  · exact h2 t
  · rw [t] at h; exact h1 h
  · exact h1 (sto_kLt.trans _ _ _ t h)

/-! ### insertion sort yields a sorted permutation -/

theorem insSorted_perm (a : Diag) (l : List Diag) : (insSorted a l).Perm (a :: l) := by
  induction l with
  | nil => exact List.Perm.refl _
  | cons b t ih =>
    unfold insSorted
    split
    · exact (List.Perm.cons b ih).trans (List.Perm.swap a b t)
    · exact List.Perm.refl _

theorem insSorted_sorted (a : Diag) (l : List Diag) (h : Sorted l) : Sorted (insSorted a l) := by
  induction l with
  | nil => simp [insSorted, Sorted]
  | cons b t ih =>
    unfold insSorted
    split
    · rename_i hba
      refine List.pairwise_cons.mpr ⟨?_, ih h.tail⟩
      intro y hy
      rcases List.mem_cons.mp ((insSorted_perm a t).mem_iff.mp hy) with e | e
      · subst e
        rw [less_false_iff]
        exact sto_kLt.asymm ((less_iff_kLt _ _).mp hba)
      · exact h.head y e
    · rename_i hba
      have hba' : less b a = false := by simpa using hba
      refine List.pairwise_cons.mpr ⟨?_, h⟩
      intro y hy
      rcases List.mem_cons.mp hy with e | e
      · subst e; exact hba'
      · exact less_false_trans hba' (h.head y e)

theorem sortDiags_perm (l : List Diag) : (sortDiags l).Perm l := by
  induction l with
  | nil => exact List.Perm.refl _
  | cons a t ih => exact (insSorted_perm a (sortDiags t)).trans (List.Perm.cons a ih)

theorem sortDiags_sorted (l : List Diag) : Sorted (sortDiags l) := by
  induction l with
  | nil => simp [sortDiags, Sorted]
  | cons a t ih => exact insSorted_sorted a _ ih

/-! ### build-name sets -/

theorem mem_insName (n x : String) (l : List String) : x ∈ insName n l ↔ x = n ∨ x ∈ l := by
  induction l with
  | nil => simp [insName]
  | cons y ys ih =>
    unfold insName
    split
    · simp
    · split
      · rename_i _ e; subst e; simp
      · simp [ih]; constructor <;> (intro h; rcases h with h | h | h <;> simp [h])

theorem insName_sorted (n : String) (l : List String) (h : l.Pairwise sLt) :
    (insName n l).Pairwise sLt := by
  induction l with
  | nil => simp [insName]
  | cons y ys ih =>
    have hy := (List.pairwise_cons.mp h).1
    have hys := (List.pairwise_cons.mp h).2
    unfold insName
    split
    · rename_i hlt
      refine List.pairwise_cons.mpr ⟨?_, h⟩
      intro z hz
      rcases List.mem_cons.mp hz with e | e
      · subst e; exact hlt
      · exact sto_sLt.trans _ _ _ hlt (hy z e)
    · split
      · exact h
      · rename_i h1 h2
        have hyn : sLt y n := by
          rcases sto_sLt.tri n y with t | t | t
          · exact absurd t h1
          · exact absurd t h2
          · exact t
        refine List.pairwise_cons.mpr ⟨?_, ih hys⟩
        intro z hz
        rcases (mem_insName n z ys).mp hz with e | e
        · subst e; exact hyn
        · exact hy z e

end Verif.C12
