import Verif.C12.Model
/-
C12 — helper lemmas: strict total orders and lexicographic products, the comparator
`less` as a lexicographic order whose prefix is the descriptor, insertion of build
names, the de-duplication loop, canonical forms.
-/
namespace Verif.C12

/-! ### strict total orders -/

structure STO {α : Type} (r : α → α → Prop) : Prop where
  irrefl : ∀ a, ¬ r a a
  trans : ∀ a b c, r a b → r b c → r a c
  tri : ∀ a b, r a b ∨ a = b ∨ r b a

theorem STO.asymm {α : Type} {r : α → α → Prop} (h : STO r) {a b : α} (hab : r a b) : ¬ r b a :=
  fun hba => h.irrefl a (h.trans _ _ _ hab hba)

def lexLt {α β : Type} (r1 : α → α → Prop) (r2 : β → β → Prop) (a b : α × β) : Prop :=
  r1 a.1 b.1 ∨ (a.1 = b.1 ∧ r2 a.2 b.2)

theorem STO.lex {α β : Type} {r1 : α → α → Prop} {r2 : β → β → Prop}
    (h1 : STO r1) (h2 : STO r2) : STO (lexLt r1 r2) := by
  constructor
  · intro a h
    rcases h with h | ⟨_, h⟩
    · exact h1.irrefl _ h
    · exact h2.irrefl _ h
  · intro a b c hab hbc
    rcases hab with h | ⟨e, h⟩ <;> rcases hbc with h' | ⟨e', h'⟩
    · exact Or.inl (h1.trans _ _ _ h h')
    · exact Or.inl (e' ▸ h)
    · exact Or.inl (e ▸ h')
    · exact Or.inr ⟨e.trans e', h2.trans _ _ _ h h'⟩
  · intro a b
    rcases h1.tri a.1 b.1 with h | h | h
    · exact Or.inl (Or.inl h)
    · rcases h2.tri a.2 b.2 with h' | h' | h'
      · exact Or.inl (Or.inr ⟨h, h'⟩)
      · exact Or.inr (Or.inl (Prod.ext h h'))
      · exact Or.inr (Or.inr (Or.inr ⟨h.symm, h'⟩))
    · exact Or.inr (Or.inr (Or.inl h))

theorem STO.comap {α β : Type} {r : β → β → Prop} (h : STO r) (f : α → β)
    (hf : ∀ a b, f a = f b → a = b) : STO (fun a b => r (f a) (f b)) := by
  constructor
  · intro a; exact h.irrefl _
  · intro a b c; exact h.trans _ _ _
  · intro a b
    rcases h.tri (f a) (f b) with h' | h' | h'
    · exact Or.inl h'
    · exact Or.inr (Or.inl (hf _ _ h'))
    · exact Or.inr (Or.inr h')

def sLt (a b : String) : Prop := a < b
def iLt (a b : Int) : Prop := a < b

theorem sto_sLt : STO sLt := by
  constructor
  · intro a; exact String.lt_irrefl a
  · intro a b c; exact String.lt_trans
  · intro a b
    by_cases h1 : a < b
    · exact Or.inl h1
    · by_cases h2 : b < a
      · exact Or.inr (Or.inr h2)
      · exact Or.inr (Or.inl (String.le_antisymm (String.not_lt.mp h2) (String.not_lt.mp h1)))

theorem sto_iLt : STO iLt := by
  constructor
  · intro a; unfold iLt; omega
  · intro a b c; unfold iLt; omega
  · intro a b; unfold iLt; omega

/-! ### the descriptor order (fields in the order `less` compares them) -/

abbrev DKey := String × Int × Int × String × String × String × Int × Int × Int × Int

def Desc.key (k : Desc) : DKey :=
  (k.pos.file, k.pos.line, k.pos.col, k.msg, k.cat, k.end_.file, k.end_.line, k.end_.col,
   k.pos.off, k.end_.off)

def keyLt : DKey → DKey → Prop :=
  lexLt sLt (lexLt iLt (lexLt iLt (lexLt sLt (lexLt sLt (lexLt sLt (lexLt iLt (lexLt iLt
    (lexLt iLt iLt))))))))

/-- strict total order on descriptors induced by the comparator -/
def descLt (a b : Desc) : Prop := keyLt a.key b.key

theorem Desc.key_inj (a b : Desc) (h : a.key = b.key) : a = b := by
  rcases a with ⟨⟨f, o, l, c⟩, ⟨ef, eo, el, ec⟩, cat, msg⟩
  rcases b with ⟨⟨f', o', l', c'⟩, ⟨ef', eo', el', ec'⟩, cat', msg'⟩
  simp only [Desc.key, Prod.mk.injEq] at h
  simp [h]

theorem sto_keyLt : STO keyLt :=
  sto_sLt.lex (sto_iLt.lex (sto_iLt.lex (sto_sLt.lex (sto_sLt.lex (sto_sLt.lex (sto_iLt.lex
    (sto_iLt.lex (sto_iLt.lex sto_iLt))))))))

theorem sto_descLt : STO descLt := sto_keyLt.comap Desc.key Desc.key_inj

/-- order on (descriptor, build name): descriptor first -/
def kLt : Desc × String → Desc × String → Prop := lexLt descLt sLt

theorem sto_kLt : STO kLt := sto_descLt.lex sto_sLt

def Diag.kk (d : Diag) : Desc × String := (d.desc, d.build)

theorem step_iff {α : Type} [DecidableEq α] [LT α] [DecidableLT α] (x y : α) (irr : ¬ x < x)
    (rest : Bool) (P : Prop) (h : rest = true ↔ P) :
    ((if x ≠ y then decide (x < y) else rest) = true) ↔ (x < y ∨ (x = y ∧ P)) := by
  by_cases e : x = y
  · subst e; simp [irr, h]
  · simp [e]

theorem desc_eq_iff (a b : Desc) : a = b ↔
    (a.pos.file = b.pos.file ∧ a.pos.line = b.pos.line ∧ a.pos.col = b.pos.col ∧ a.msg = b.msg ∧
     a.cat = b.cat ∧ a.end_.file = b.end_.file ∧ a.end_.line = b.end_.line ∧
     a.end_.col = b.end_.col ∧ a.pos.off = b.pos.off ∧ a.end_.off = b.end_.off) := by
  constructor
  · intro h; subst h; simp
  · intro h
    apply Desc.key_inj
    simp [Desc.key, h]

/-- The comparator is the lexicographic order "descriptor, then build name". -/
theorem less_iff_kLt (a b : Diag) : less a b = true ↔ kLt a.kk b.kk := by
  have hs := String.lt_irrefl
  have hi : ∀ x : Int, ¬ x < x := fun x => by omega
  have h := step_iff a.desc.pos.file b.desc.pos.file (hs _) _ _ <|
    step_iff a.desc.pos.line b.desc.pos.line (hi _) _ _ <|
    step_iff a.desc.pos.col b.desc.pos.col (hi _) _ _ <|
    step_iff a.desc.msg b.desc.msg (hs _) _ _ <|
    step_iff a.desc.cat b.desc.cat (hs _) _ _ <|
    step_iff a.desc.end_.file b.desc.end_.file (hs _) _ _ <|
    step_iff a.desc.end_.line b.desc.end_.line (hi _) _ _ <|
    step_iff a.desc.end_.col b.desc.end_.col (hi _) _ _ <|
    step_iff a.desc.pos.off b.desc.pos.off (hi _) _ _ <|
    step_iff a.desc.end_.off b.desc.end_.off (hi _) (decide (a.build < b.build)) (a.build < b.build)
      (by simp)
  unfold less
  rw [h]
  simp only [kLt, lexLt, Diag.kk, descLt, keyLt, Desc.key, sLt, iLt, desc_eq_iff]
  by_cases e1 : a.desc.pos.file = b.desc.pos.file <;> simp [e1]
  by_cases e2 : a.desc.pos.line = b.desc.pos.line <;> simp [e2]
  by_cases e3 : a.desc.pos.col = b.desc.pos.col <;> simp [e3]
  by_cases e4 : a.desc.msg = b.desc.msg <;> simp [e4]
  by_cases e5 : a.desc.cat = b.desc.cat <;> simp [e5]
  by_cases e6 : a.desc.end_.file = b.desc.end_.file <;> simp [e6]
  by_cases e7 : a.desc.end_.line = b.desc.end_.line <;> simp [e7]
  by_cases e8 : a.desc.end_.col = b.desc.end_.col <;> simp [e8]
  by_cases e9 : a.desc.pos.off = b.desc.pos.off <;> simp [e9]

theorem less_false_iff (a b : Diag) : less a b = false ↔ ¬ kLt a.kk b.kk := by
  rw [← less_iff_kLt]; simp

/-- `sort.Slice` postcondition: no later element is `less` than an earlier one. -/
def Sorted (l : List Diag) : Prop := l.Pairwise (fun a b => less b a = false)

theorem Sorted.tail {a : Diag} {l : List Diag} (h : Sorted (a :: l)) : Sorted l :=
  (List.pairwise_cons.mp h).2

theorem Sorted.head {a : Diag} {l : List Diag} (h : Sorted (a :: l)) :
    ∀ x ∈ l, less x a = false := (List.pairwise_cons.mp h).1

theorem Sorted.drop2 {a b : Diag} {l : List Diag} (h : Sorted (a :: b :: l)) : Sorted (a :: l) := by
  have h1 := h.head
  have h2 := h.tail.tail
  exact List.pairwise_cons.mpr ⟨fun x hx => h1 x (List.mem_cons_of_mem _ hx), h2⟩

/-- negative transitivity of the comparator -/
theorem less_false_trans {a b c : Diag} (h1 : less b a = false) (h2 : less c b = false) :
    less c a = false := by
  rw [less_false_iff] at *
  intro h
  rcases sto_kLt.tri c.kk b.kk with t | t | t
  · exact h2 t
  · rw [t] at h; exact h1 h
  · exact h1 (sto_kLt.trans _ _ _ t h)

/-! ### insertion sort yields a sorted permutation -/

theorem insSorted_perm (a : Diag) (l : List Diag) : (insSorted a l).Perm (a :: l) := by
  induction l with
  | nil => exact List.Perm.refl _
  | cons b t ih =>
    unfold insSorted
    split
    · exact (List.Perm.cons b ih).trans (List.Perm.swap a b t)
    · exact List.Perm.refl _

theorem insSorted_sorted (a : Diag) (l : List Diag) (h : Sorted l) : Sorted (insSorted a l) := by
  induction l with
  | nil => simp [insSorted, Sorted]
  | cons b t ih =>
    unfold insSorted
    split
    · rename_i hba
      refine List.pairwise_cons.mpr ⟨?_, ih h.tail⟩
      intro y hy
      rcases List.mem_cons.mp ((insSorted_perm a t).mem_iff.mp hy) with e | e
      · subst e
        rw [less_false_iff]
        exact sto_kLt.asymm ((less_iff_kLt _ _).mp hba)
      · exact h.head y e
    · rename_i hba
      have hba' : less b a = false := by simpa using hba
      refine List.pairwise_cons.mpr ⟨?_, h⟩
      intro y hy
      rcases List.mem_cons.mp hy with e | e
      · subst e; exact hba'
      · exact less_false_trans hba' (h.head y e)

theorem sortDiags_perm (l : List Diag) : (sortDiags l).Perm l := by
  induction l with
  | nil => exact List.Perm.refl _
  | cons a t ih => exact (insSorted_perm a (sortDiags t)).trans (List.Perm.cons a ih)

theorem sortDiags_sorted (l : List Diag) : Sorted (sortDiags l) := by
  induction l with
  | nil => simp [sortDiags, Sorted]
  | cons a t ih => exact insSorted_sorted a _ ih

/-! ### build-name sets -/

theorem mem_insName (n x : String) (l : List String) : x ∈ insName n l ↔ x = n ∨ x ∈ l := by
  induction l with
  | nil => simp [insName]
  | cons y ys ih =>
    unfold insName
    split
    · simp
    · split
      · rename_i _ e; subst e; simp
      · simp [ih]; constructor <;> (intro h; rcases h with h | h | h <;> simp [h])

theorem insName_sorted (n : String) (l : List String) (h : l.Pairwise sLt) :
    (insName n l).Pairwise sLt := by
  induction l with
  | nil => simp [insName]
  | cons y ys ih =>
    have hy := (List.pairwise_cons.mp h).1
    have hys := (List.pairwise_cons.mp h).2
    unfold insName
    split
    · rename_i hlt
      refine List.pairwise_cons.mpr ⟨?_, h⟩
      intro z hz
      rcases List.mem_cons.mp hz with e | e
      · subst e; exact hlt
      · exact sto_sLt.trans _ _ _ hlt (hy z e)
    · split
      · exact h
      · rename_i h1 h2
        have hyn : sLt y n := by
          rcases sto_sLt.tri n y with t | t | t
          · exact absurd t h1
          · exact absurd t h2
          · exact t
        refine List.pairwise_cons.mpr ⟨?_, ih hys⟩
        intro z hz
        rcases (mem_insName n z ys).mp hz with e | e
        · subst e; exact hyn
        · exact hy z e

/-! ### the de-duplication loop -/

/-- `diagnostic.equal` folds the case of the category, descriptor equality does not; the
loop is only meaningful when "equal" diagnostics have equal descriptors. -/
def EqOK (l : List Diag) : Prop := ∀ x ∈ l, ∀ y ∈ l, x.equal y = true → x.desc = y.desc

theorem EqOK.sub {l l' : List Diag} (h : EqOK l) (hs : ∀ x ∈ l', x ∈ l) : EqOK l' :=
  fun x hx y hy => h x (hs x hx) y (hs y hy)

theorem equal_build {p o : Diag} (h : p.equal o = true) : p.build = o.build := by
  simp only [Diag.equal, Bool.and_eq_true, decide_eq_true_eq] at h
  exact h.2

/-- (descriptor, name) pairs present in an observable output -/
def opair (o : List (Desc × List String)) (k : Desc) (n : String) : Prop :=
  ∃ ns, (k, ns) ∈ o ∧ n ∈ ns

def okeys (o : List (Desc × List String)) : List Desc := o.map Prod.fst

@[simp] theorem obs_nil : obs [] = [] := rfl
@[simp] theorem obs_cons (e : Diag) (ns : List String) (R : List (Diag × List String)) :
    obs ((e, ns) :: R) = (e.desc, ns) :: obs R := rfl

theorem opair_cons (k' : Desc) (ns' : List String) (o : List (Desc × List String)) (k : Desc)
    (n : String) : opair ((k', ns') :: o) k n ↔ (k = k' ∧ n ∈ ns') ∨ opair o k n := by
  unfold opair
  constructor
  · rintro ⟨ns, hm, hn⟩
    rcases List.mem_cons.mp hm with e | e
    · left; simp only [Prod.mk.injEq] at e; exact ⟨e.1, e.2 ▸ hn⟩
    · right; exact ⟨ns, e, hn⟩
  · rintro (⟨e, hn⟩ | ⟨ns, hm, hn⟩)
    · exact ⟨ns', by simp [e], hn⟩
    · exact ⟨ns, List.mem_cons_of_mem _ hm, hn⟩

/-- the loop neither loses nor invents (descriptor, build) pairs -/
theorem dedup_pairs (rest : List Diag) : ∀ (cur : Diag) (names : List String),
    EqOK (cur :: rest) → cur.build ∈ names → ∀ k n,
    (opair (obs (dedupLoop cur names rest)) k n ↔
      (k = cur.desc ∧ n ∈ names) ∨ ∃ x ∈ rest, x.desc = k ∧ x.build = n) := by
  induction rest with
  | nil =>
    intro cur names _ _ k n
    simp only [dedupLoop, obs_cons, obs_nil, opair_cons]
    constructor
    · rintro (h | ⟨ns, hm, _⟩)
      · exact Or.inl h
      · cases hm
    · rintro (h | ⟨x, hx, _⟩)
      · exact Or.inl h
      · cases hx
  | cons d ds ih =>
    intro cur names hok hb k n
    have hok' : EqOK (cur :: ds) := hok.sub (by
      intro x hx; rcases List.mem_cons.mp hx with e | e
      · simp [e]
      · simp [e])
    unfold dedupLoop
    split
    · rename_i heq
      have hd : cur.desc = d.desc := hok cur (by simp) d (by simp) heq
      have hbd : cur.build = d.build := equal_build heq
      rw [ih cur names hok' hb k n]
      constructor
      · rintro (h | ⟨x, hx, h⟩)
        · exact Or.inl h
        · exact Or.inr ⟨x, List.mem_cons_of_mem _ hx, h⟩
      · rintro (h | ⟨x, hx, h⟩)
        · exact Or.inl h
        · rcases List.mem_cons.mp hx with e | e
          · subst e; left; exact ⟨by rw [hd]; exact h.1.symm, by rw [← h.2, ← hbd]; exact hb⟩
          · exact Or.inr ⟨x, e, h⟩
    · split
      · rename_i _ hd
        rw [ih cur (insName d.build names) hok' ((mem_insName _ _ _).mpr (Or.inr hb)) k n]
        simp only [mem_insName]
        constructor
        · rintro (⟨hk, h | h⟩ | ⟨x, hx, h⟩)
          · exact Or.inr ⟨d, by simp, by rw [← hd]; exact hk.symm, h.symm⟩
          · exact Or.inl ⟨hk, h⟩
          · exact Or.inr ⟨x, List.mem_cons_of_mem _ hx, h⟩
        · rintro (h | ⟨x, hx, h⟩)
          · exact Or.inl ⟨h.1, Or.inr h.2⟩
          · rcases List.mem_cons.mp hx with e | e
            · subst e; exact Or.inl ⟨by rw [hd]; exact h.1.symm, Or.inl h.2.symm⟩
            · exact Or.inr ⟨x, e, h⟩
      · have hokd : EqOK (d :: ds) := hok.sub (by intro x hx; exact List.mem_cons_of_mem _ hx)
        rw [obs_cons, opair_cons, ih d [d.build] hokd (by simp) k n]
        constructor
        · rintro (h | ⟨hk, h⟩ | ⟨x, hx, h⟩)
          · exact Or.inl h
          · exact Or.inr ⟨d, by simp, hk.symm, (List.mem_singleton.mp h).symm⟩
          · exact Or.inr ⟨x, List.mem_cons_of_mem _ hx, h⟩
        · rintro (h | ⟨x, hx, h⟩)
          · exact Or.inl h
          · rcases List.mem_cons.mp hx with e | e
            · subst e; exact Or.inr (Or.inl ⟨h.1.symm, by simp [h.2]⟩)
            · exact Or.inr (Or.inr ⟨x, e, h⟩)

/-- descriptors of the output lines = descriptors of the input -/
theorem dedup_keys (rest : List Diag) : ∀ (cur : Diag) (names : List String),
    EqOK (cur :: rest) → ∀ k,
    (k ∈ okeys (obs (dedupLoop cur names rest)) ↔ k = cur.desc ∨ ∃ x ∈ rest, x.desc = k) := by
  induction rest with
  | nil => intro cur names _ k; simp [dedupLoop, okeys]
  | cons d ds ih =>
    intro cur names hok k
    have hok' : EqOK (cur :: ds) := hok.sub (by
      intro x hx; rcases List.mem_cons.mp hx with e | e
      · simp [e]
      · simp [e])
    have aux : ∀ (names' : List String), cur.desc = d.desc →
        (k ∈ okeys (obs (dedupLoop cur names' ds)) ↔ k = cur.desc ∨ ∃ x ∈ d :: ds, x.desc = k) := by
      intro names' hd
      rw [ih cur names' hok' k]
      constructor
      · rintro (h | ⟨x, hx, h⟩)
        · exact Or.inl h
        · exact Or.inr ⟨x, List.mem_cons_of_mem _ hx, h⟩
      · rintro (h | ⟨x, hx, h⟩)
        · exact Or.inl h
        · rcases List.mem_cons.mp hx with e | e
          · subst e; exact Or.inl (by rw [hd]; exact h.symm)
          · exact Or.inr ⟨x, e, h⟩
    unfold dedupLoop
    split
    · rename_i heq
      exact aux names (hok cur (by simp) d (by simp) heq)
    · split
      · rename_i _ hd
        exact aux _ hd
      · have hokd : EqOK (d :: ds) := hok.sub (by intro x hx; exact List.mem_cons_of_mem _ hx)
        have := ih d [d.build] hokd k
        simp only [okeys, obs_cons, List.map_cons, List.mem_cons] at this ⊢
        rw [this]
        constructor
        · rintro (h | h | ⟨x, hx, h⟩)
          · exact Or.inl h
          · exact Or.inr ⟨d, Or.inl rfl, h.symm⟩
          · exact Or.inr ⟨x, Or.inr hx, h⟩
        · rintro (h | ⟨x, hx | hx, h⟩)
          · exact Or.inl h
          · subst hx; exact Or.inr (Or.inl h.symm)
          · exact Or.inr (Or.inr ⟨x, hx, h⟩)

/-- every output line's name list is strictly increasing (so: duplicate-free, canonical) -/
theorem dedup_names_sorted (rest : List Diag) : ∀ (cur : Diag) (names : List String),
    names.Pairwise sLt → ∀ e ∈ obs (dedupLoop cur names rest), e.2.Pairwise sLt := by
  induction rest with
  | nil => intro cur names h e he; simp [dedupLoop] at he; subst he; exact h
  | cons d ds ih =>
    intro cur names h e he
    unfold dedupLoop at he
    split at he
    · exact ih cur names h e he
    · split at he
      · exact ih cur _ (insName_sorted _ _ h) e he
      · rw [obs_cons] at he
        rcases List.mem_cons.mp he with e' | e'
        · subst e'; exact h
        · exact ih d [d.build] (by simp) e e'

/-- On sorted input the descriptors of the output lines are strictly increasing: no
problem is printed twice.  This is the statement the pre-fix comparator violated. -/
theorem dedup_keys_sorted (rest : List Diag) : ∀ (cur : Diag) (names : List String),
    Sorted (cur :: rest) →
    (okeys (obs (dedupLoop cur names rest))).Pairwise descLt ∧
    ∀ k ∈ okeys (obs (dedupLoop cur names rest)), k = cur.desc ∨ descLt cur.desc k := by
  induction rest with
  | nil => intro cur names _; simp [dedupLoop, okeys]
  | cons d ds ih =>
    intro cur names hs
    unfold dedupLoop
    split
    · exact ih cur names hs.drop2
    · split
      · exact ih cur _ hs.drop2
      · rename_i _ hne
        have ⟨ihp, ihb⟩ := ih d [d.build] hs.tail
        have hdc : ¬ kLt d.kk cur.kk := (less_false_iff _ _).mp (hs.head d (by simp))
        have hlt : descLt cur.desc d.desc := by
          rcases sto_descLt.tri cur.desc d.desc with t | t | t
          · exact t
          · exact absurd t hne
          · exact absurd (Or.inl t) hdc
        have hall : ∀ k ∈ okeys (obs (dedupLoop d [d.build] ds)), descLt cur.desc k := by
          intro k hk
          rcases ihb k hk with e | e
          · rw [e]; exact hlt
          · exact sto_descLt.trans _ _ _ hlt e
        simp only [okeys, obs_cons, List.map_cons] at *
        refine ⟨List.pairwise_cons.mpr ⟨hall, ihp⟩, ?_⟩
        intro k hk
        rcases List.mem_cons.mp hk with e | e
        · exact Or.inl e
        · exact Or.inr (hall k e)

/-! ### canonical forms: strictly sorted lists are determined by their members -/

theorem eq_of_pairwise_of_mem_iff {α : Type} {r : α → α → Prop} (irr : ∀ a, ¬ r a a)
    (tr : ∀ a b c, r a b → r b c → r a c) :
    ∀ (l l' : List α), l.Pairwise r → l'.Pairwise r → (∀ x, x ∈ l ↔ x ∈ l') → l = l' := by
  intro l
  induction l with
  | nil =>
    intro l' _ _ h
    cases l' with
    | nil => rfl
    | cons y ys => exact absurd ((h y).mpr (by simp)) (by simp)
  | cons x xs ih =>
    intro l' hl hl' h
    cases l' with
    | nil => exact absurd ((h x).mp (by simp)) (by simp)
    | cons y ys =>
      have hx := (List.pairwise_cons.mp hl).1
      have hy := (List.pairwise_cons.mp hl').1
      have hxy : x = y := by
        rcases List.mem_cons.mp ((h x).mp (by simp)) with e | e
        · exact e
        · rcases List.mem_cons.mp ((h y).mpr (by simp)) with e' | e'
          · exact e'.symm
          · exact absurd (tr _ _ _ (hx y e') (hy x e)) (irr x)
      subst hxy
      have : xs = ys := by
        apply ih ys (List.pairwise_cons.mp hl).2 (List.pairwise_cons.mp hl').2
        intro z
        constructor
        · intro hz
          rcases List.mem_cons.mp ((h z).mp (List.mem_cons_of_mem _ hz)) with e | e
          · subst e; exact absurd (hx z hz) (irr z)
          · exact e
        · intro hz
          rcases List.mem_cons.mp ((h z).mpr (List.mem_cons_of_mem _ hz)) with e | e
          · subst e; exact absurd (hy z hz) (irr z)
          · exact e
      rw [this]

/-- a well-formed observable output: one line per descriptor (strictly increasing),
strictly increasing names on every line -/
structure Canon (o : List (Desc × List String)) : Prop where
  keys : (okeys o).Pairwise descLt
  names : ∀ e ∈ o, e.2.Pairwise sLt

theorem canon_unique_entry {o : List (Desc × List String)} (h : (okeys o).Pairwise descLt)
    {k : Desc} {ns ns' : List String} (h1 : (k, ns) ∈ o) (h2 : (k, ns') ∈ o) : ns = ns' := by
  induction o with
  | nil => cases h1
  | cons e t ih =>
    simp only [okeys, List.map_cons] at h
    have hh := (List.pairwise_cons.mp h).1
    have ht := (List.pairwise_cons.mp h).2
    have no : ∀ ms, (k, ms) ∈ t → e.1 = k → False := by
      intro ms hm ek
      have := hh k (List.mem_map.mpr ⟨(k, ms), hm, rfl⟩)
      rw [ek] at this
      exact sto_descLt.irrefl _ this
    rcases List.mem_cons.mp h1 with e1 | e1 <;> rcases List.mem_cons.mp h2 with e2 | e2
    · rw [← e1] at e2; simp only [Prod.mk.injEq] at e2; exact e2.2.symm
    · exact absurd (by rw [← e1]) (no ns' e2)
    · exact absurd (by rw [← e2]) (no ns e1)
    · exact ih ht e1 e2

/-- Two well-formed outputs with the same descriptors and the same (descriptor, name)
pairs are the same list. -/
theorem canon_ext {o o' : List (Desc × List String)} (c : Canon o) (c' : Canon o')
    (hk : ∀ k, k ∈ okeys o ↔ k ∈ okeys o') (hp : ∀ k n, opair o k n ↔ opair o' k n) : o = o' := by
  have key : ∀ (a b : List (Desc × List String)), Canon a → Canon b →
      (∀ k, k ∈ okeys a → k ∈ okeys b) → (∀ k n, opair a k n ↔ opair b k n) →
      ∀ e, e ∈ a → e ∈ b := by
    intro a b ca cb hk hp e he
    rcases e with ⟨k, ns⟩
    have : k ∈ okeys b := hk k (List.mem_map.mpr ⟨(k, ns), he, rfl⟩)
    rcases List.mem_map.mp this with ⟨⟨k', ns'⟩, hm, hk'⟩
    simp only at hk'
    subst hk'
    have : ns = ns' := by
      apply eq_of_pairwise_of_mem_iff sto_sLt.irrefl sto_sLt.trans _ _ (ca.names _ he) (cb.names _ hm)
      intro n
      constructor
      · intro hn
        rcases (hp k' n).mp ⟨ns, he, hn⟩ with ⟨ms, hms, hn'⟩
        rw [canon_unique_entry cb.keys hm hms]; exact hn'
      · intro hn
        rcases (hp k' n).mpr ⟨ns', hm, hn⟩ with ⟨ms, hms, hn'⟩
        rw [canon_unique_entry ca.keys he hms]; exact hn'
    rw [this]; exact hm
  apply eq_of_pairwise_of_mem_iff (r := fun p q => descLt p.1 q.1)
    (fun a => sto_descLt.irrefl _) (fun a b c => sto_descLt.trans _ _ _)
  · have := c.keys; simp only [okeys, List.pairwise_map] at this; exact this
  · have := c'.keys; simp only [okeys, List.pairwise_map] at this; exact this
  · intro e
    exact ⟨key o o' c c' (fun k => (hk k).mp) hp e,
           key o' o c' c (fun k => (hk k).mpr) (fun k n => (hp k n).symm) e⟩

/-! ### printCore on a sorted list -/

theorem printCore_canon {s : List Diag} (hs : Sorted s) : Canon (obs (printCore s)) := by
  cases s with
  | nil => exact ⟨by simp [printCore, okeys], by simp [printCore]⟩
  | cons d ds =>
    exact ⟨(dedup_keys_sorted ds d [d.build] hs).1, dedup_names_sorted ds d [d.build] (by simp)⟩

theorem printCore_keys {s : List Diag} (hok : EqOK s) (k : Desc) :
    k ∈ okeys (obs (printCore s)) ↔ ∃ x ∈ s, x.desc = k := by
  cases s with
  | nil => simp [printCore, okeys]
  | cons d ds =>
    simp only [printCore]
    rw [dedup_keys ds d [d.build] hok k]
    constructor
    · rintro (h | ⟨x, hx, h⟩)
      · exact ⟨d, by simp, h.symm⟩
      · exact ⟨x, List.mem_cons_of_mem _ hx, h⟩
    · rintro ⟨x, hx, h⟩
      rcases List.mem_cons.mp hx with e | e
      · subst e; exact Or.inl h.symm
      · exact Or.inr ⟨x, e, h⟩

theorem printCore_pairs {s : List Diag} (hok : EqOK s) (k : Desc) (n : String) :
    opair (obs (printCore s)) k n ↔ ∃ x ∈ s, x.desc = k ∧ x.build = n := by
  cases s with
  | nil => simp [printCore, opair]
  | cons d ds =>
    simp only [printCore]
    rw [dedup_pairs ds d [d.build] hok (by simp) k n]
    constructor
    · rintro (⟨h, hn⟩ | ⟨x, hx, h⟩)
      · exact ⟨d, by simp, h.symm, (List.mem_singleton.mp hn).symm⟩
      · exact ⟨x, List.mem_cons_of_mem _ hx, h⟩
    · rintro ⟨x, hx, h⟩
      rcases List.mem_cons.mp hx with e | e
      · subst e; exact Or.inl ⟨h.1.symm, by simp [h.2]⟩
      · exact Or.inr ⟨x, e, h⟩

/-! ### mergeRuns -/

theorem Run.has_iff (r : Run) (k : Desc) : r.has k = true ↔ ∃ d ∈ r.diags, d.desc = k := by
  simp [Run.has]

theorem keepAll_iff (runs : List Run) (d : Diag) :
    keepAll runs d = true ↔
      ∀ r ∈ runs, d.desc.pos.file ∈ r.checked → r.has d.desc = true := by
  simp only [keepAll, List.all_eq_true, Bool.or_eq_true, Bool.not_eq_true']
  constructor
  · intro h r hr hc
    rcases h r hr with h' | h'
    · have : r.checked.contains d.desc.pos.file = true := List.contains_iff_mem.mpr hc
      rw [this] at h'; cases h'
    · exact h'
  · intro h r hr
    by_cases hc : r.checked.contains d.desc.pos.file = true
    · exact Or.inr (h r hr (List.contains_iff_mem.mp hc))
    · exact Or.inl (by simpa using hc)

theorem mem_mergeRuns (runs : List Run) (d : Diag) :
    d ∈ mergeRuns runs ↔ ∃ r ∈ runs, d ∈ r.diags ∧ relevant runs d = true := by
  simp [mergeRuns, List.mem_flatMap, List.mem_filter]

theorem keepAll_congr {runs runs' : List Run} (h : ∀ r, r ∈ runs ↔ r ∈ runs') (d : Diag) :
    keepAll runs d = keepAll runs' d := by
  rw [Bool.eq_iff_iff, keepAll_iff, keepAll_iff]
  constructor
  · intro hh r hr; exact hh r ((h r).mpr hr)
  · intro hh r hr; exact hh r ((h r).mp hr)

theorem relevant_congr {runs runs' : List Run} (h : ∀ r, r ∈ runs ↔ r ∈ runs') (d : Diag) :
    relevant runs d = relevant runs' d := by
  simp only [relevant, keepAll_congr h d]

theorem mem_mergeRuns_congr {runs runs' : List Run} (h : ∀ r, r ∈ runs ↔ r ∈ runs') (d : Diag) :
    d ∈ mergeRuns runs ↔ d ∈ mergeRuns runs' := by
  rw [mem_mergeRuns, mem_mergeRuns]
  constructor
  · rintro ⟨r, hr, hd, hrel⟩; exact ⟨r, (h r).mp hr, hd, by rw [← relevant_congr h]; exact hrel⟩
  · rintro ⟨r, hr, hd, hrel⟩; exact ⟨r, (h r).mpr hr, hd, by rw [relevant_congr h]; exact hrel⟩

/-- check names are spelled consistently: categories that `diagnostic.equal` identifies
(it folds case) are identical.  True of every run a linter binary produces (categories
are the registered analyzer names). -/
def CaseConsistent (runs : List Run) : Prop :=
  ∀ r ∈ runs, ∀ d ∈ r.diags, ∀ r' ∈ runs, ∀ d' ∈ r'.diags,
    foldCase d.desc.cat = foldCase d'.desc.cat → d.desc.cat = d'.desc.cat

theorem equal_desc_of_cat {p o : Diag} (h : p.equal o = true)
    (hc : foldCase p.desc.cat = foldCase o.desc.cat → p.desc.cat = o.desc.cat) : p.desc = o.desc := by
  simp only [Diag.equal, Bool.and_eq_true, decide_eq_true_eq] at h
  obtain ⟨⟨⟨⟨⟨⟨h1, h2⟩, h3⟩, h4⟩, _⟩, _⟩, _⟩ := h
  have h5 := hc h4
  rcases p with ⟨⟨pp, pe, pc, pm⟩, _, _, _⟩
  rcases o with ⟨⟨op, oe, oc, om⟩, _, _, _⟩
  simp only at h1 h2 h3 h5
  simp [h1, h2, h3, h5]

theorem eqOK_of_caseConsistent {runs : List Run} (hc : CaseConsistent runs) {s : List Diag}
    (hs : ∀ x ∈ s, x ∈ mergeRuns runs) : EqOK s := by
  intro x hx y hy he
  rcases (mem_mergeRuns _ _).mp (hs x hx) with ⟨r, hr, hd, _⟩
  rcases (mem_mergeRuns _ _).mp (hs y hy) with ⟨r', hr', hd', _⟩
  exact equal_desc_of_cat he (hc r hr x hd r' hr' y hd')

theorem CaseConsistent.congr {runs runs' : List Run} (hc : CaseConsistent runs)
    (h : ∀ r, r ∈ runs ↔ r ∈ runs') : CaseConsistent runs' :=
  fun r hr d hd r' hr' d' hd' => hc r ((h r).mpr hr) d hd r' ((h r').mpr hr') d' hd'

/-! ### runFromLintResult -/

theorem find_mapSet (m : List Diag) (d : Diag) (k : Desc) :
    (mapSet m d).find? (fun x => x.desc = k) =
      if d.desc = k then some d else m.find? (fun x => x.desc = k) := by
  induction m with
  | nil => simp [mapSet, List.find?]
  | cons x xs ih =>
    unfold mapSet
    by_cases hx : x.desc = d.desc
    · simp only [hx, if_true]
      by_cases hk : d.desc = k
      · simp [List.find?, hk]
      · simp [List.find?, hk, hx]
    · simp only [hx, if_false]
      by_cases hk : d.desc = k
      · have : ¬ x.desc = k := fun e => hx (e.trans hk.symm)
        simp [List.find?, this, ih, hk]
      · by_cases hxk : x.desc = k
        · simp [List.find?, hxk, hk]
        · simp [List.find?, hxk, ih, hk]

theorem find_foldl_mapSet (ds : List Diag) : ∀ (m : List Diag) (k : Desc),
    (ds.foldl mapSet m).find? (fun x => x.desc = k) =
      (ds.reverse.find? (fun x => x.desc = k)).or (m.find? (fun x => x.desc = k)) := by
  induction ds with
  | nil => intro m k; simp
  | cons d ds ih =>
    intro m k
    rw [List.foldl_cons, ih, find_mapSet, List.reverse_cons, List.find?_append]
    by_cases hk : d.desc = k
    · cases h : List.find? (fun x => decide (x.desc = k)) ds.reverse <;> simp [List.find?, hk]
    · cases h : List.find? (fun x => decide (x.desc = k)) ds.reverse <;> simp [List.find?, hk]

theorem keys_mapSet (m : List Diag) (d : Diag) :
    (mapSet m d).map (fun x => x.desc) =
      if d.desc ∈ m.map (fun x => x.desc) then m.map (fun x => x.desc)
      else m.map (fun x => x.desc) ++ [d.desc] := by
  induction m with
  | nil => simp [mapSet]
  | cons x xs ih =>
    unfold mapSet
    by_cases hx : x.desc = d.desc
    · simp [hx]
    · have hx' : ¬ d.desc = x.desc := fun e => hx e.symm
      simp only [hx, if_false, List.map_cons, ih, List.mem_cons, hx', false_or]
      split <;> simp

theorem nodup_keys_mapSet (m : List Diag) (d : Diag) (h : (m.map (fun x => x.desc)).Nodup) :
    ((mapSet m d).map (fun x => x.desc)).Nodup := by
  rw [keys_mapSet]
  split
  · exact h
  · rename_i hn
    rw [List.nodup_append]
    refine ⟨h, by simp, ?_⟩
    intro a ha b hb
    rw [List.mem_singleton.mp hb]
    intro e; exact hn (e ▸ ha)

theorem nodup_keys_foldl (ds : List Diag) : ∀ (m : List Diag), (m.map (fun x => x.desc)).Nodup →
    ((ds.foldl mapSet m).map (fun x => x.desc)).Nodup := by
  induction ds with
  | nil => intro m h; exact h
  | cons d ds ih => intro m h; exact ih _ (nodup_keys_mapSet m d h)

end Verif.C12
