import Verif.C12.MatrixLemmas
/-
C12 — the runs of a build matrix in terms of the configurations and what the runner
found under each (lemmas for the `matrix_*` theorems).
-/
namespace Verif.C12

/-- what the runner finds under configuration `c` -/
def cfgRaw (lintOf : List String → List String → RawResult) (c : BuildConfig) : RawResult :=
  lintOf c.envs c.flags

/-- configuration `c` reports problem `k` -/
def reports (lintOf : List String → List String → RawResult) (c : BuildConfig) (k : Desc) : Prop :=
  ∃ d ∈ (cfgRaw lintOf c).diags, d.desc = k

def cfgRun (reg : Registry) (lintOf : List String → List String → RawResult) (c : BuildConfig) : Run :=
  runFromLintResult (lintRun reg c.name (cfgRaw lintOf c))

theorem mem_matrixRuns (reg : Registry) (lintOf : List String → List String → RawResult)
    (cfgs : List BuildConfig) (r : Run) :
    r ∈ matrixRuns reg lintOf cfgs ↔ ∃ c ∈ cfgs, r = cfgRun reg lintOf c := by
  simp only [matrixRuns, List.mem_map, cfgRun, cfgRaw]
  constructor
  · rintro ⟨c, hc, rfl⟩; exact ⟨c, hc, rfl⟩
  · rintro ⟨c, hc, rfl⟩; exact ⟨c, hc, rfl⟩

theorem has_cfgRun (reg : Registry) (lintOf : List String → List String → RawResult)
    (c : BuildConfig) (k : Desc) : (cfgRun reg lintOf c).has k = true ↔ reports lintOf c k := by
  simp only [cfgRun, has_runFromLintResult, lintRun, List.mem_map, reports]
  constructor
  · rintro ⟨d, ⟨rd, hrd, rfl⟩, hk⟩; exact ⟨rd, hrd, hk⟩
  · rintro ⟨rd, hrd, hk⟩; exact ⟨lintDiag reg c.name rd, ⟨rd, hrd, rfl⟩, hk⟩

theorem checked_cfgRun (reg : Registry) (lintOf : List String → List String → RawResult)
    (c : BuildConfig) : (cfgRun reg lintOf c).checked = (cfgRaw lintOf c).checked := rfl

theorem mem_cfgRun {reg : Registry} {lintOf : List String → List String → RawResult}
    {c : BuildConfig} {d : Diag} (h : d ∈ (cfgRun reg lintOf c).diags) :
    ∃ rd ∈ (cfgRaw lintOf c).diags, d = lintDiag reg c.name rd := by
  have := mem_runFromLintResult h
  simp only [lintRun, List.mem_map] at this
  rcases this with ⟨rd, hrd, e⟩
  exact ⟨rd, hrd, e.symm⟩

/-- the raw results of all configurations of the matrix -/
def matrixRaws (lintOf : List String → List String → RawResult) (cfgs : List BuildConfig) :
    List RawResult := cfgs.map (cfgRaw lintOf)

theorem matrix_caseConsistent (reg : Registry) (lintOf : List String → List String → RawResult)
    (cfgs : List BuildConfig) (hok : RawOK (matrixRaws lintOf cfgs)) :
    CaseConsistent (matrixRuns reg lintOf cfgs) := by
  intro r hr d hd r' hr' d' hd' hf
  rcases (mem_matrixRuns _ _ _ _).mp hr with ⟨c, hc, rfl⟩
  rcases (mem_matrixRuns _ _ _ _).mp hr' with ⟨c', hc', rfl⟩
  rcases mem_cfgRun hd with ⟨rd, hrd, rfl⟩
  rcases mem_cfgRun hd' with ⟨rd', hrd', rfl⟩
  exact hok.cats _ (List.mem_map.mpr ⟨c, hc, rfl⟩) rd hrd _ (List.mem_map.mpr ⟨c', hc', rfl⟩) rd' hrd' hf

theorem matrix_mergeIf (reg : Registry) (lintOf : List String → List String → RawResult)
    (cfgs : List BuildConfig) (hok : RawOK (matrixRaws lintOf cfgs))
    {r : Run} (hr : r ∈ matrixRuns reg lintOf cfgs) {d : Diag} (hd : d ∈ r.diags) :
    d.mergeIf = docStrategy reg d.desc.cat := by
  rcases (mem_matrixRuns _ _ _ _).mp hr with ⟨c, hc, rfl⟩
  rcases mem_cfgRun hd with ⟨rd, hrd, rfl⟩
  exact lintDiag_mergeIf reg c.name rd (hok.src _ (List.mem_map.mpr ⟨c, hc, rfl⟩) rd hrd)

theorem matrix_reported_iff (reg : Registry) (lintOf : List String → List String → RawResult)
    (cfgs : List BuildConfig) (k : Desc) :
    (∃ r ∈ matrixRuns reg lintOf cfgs, ∃ d ∈ r.diags, d.desc = k) ↔ ∃ c ∈ cfgs, reports lintOf c k := by
  constructor
  · rintro ⟨r, hr, d, hd, hk⟩
    rcases (mem_matrixRuns _ _ _ _).mp hr with ⟨c, hc, rfl⟩
    exact ⟨c, hc, (has_cfgRun reg lintOf c k).mp ((Run.has_iff _ _).mpr ⟨d, hd, hk⟩)⟩
  · rintro ⟨c, hc, h⟩
    rcases (Run.has_iff _ _).mp ((has_cfgRun reg lintOf c k).mpr h) with ⟨d, hd, hk⟩
    exact ⟨cfgRun reg lintOf c, (mem_matrixRuns _ _ _ _).mpr ⟨c, hc, rfl⟩, d, hd, hk⟩

theorem matrix_all_checked_iff (reg : Registry) (lintOf : List String → List String → RawResult)
    (cfgs : List BuildConfig) (k : Desc) :
    (∀ r ∈ matrixRuns reg lintOf cfgs, k.pos.file ∈ r.checked → r.has k = true) ↔
      ∀ c ∈ cfgs, k.pos.file ∈ (cfgRaw lintOf c).checked → reports lintOf c k := by
  constructor
  · intro h c hc hf
    exact (has_cfgRun reg lintOf c k).mp
      (h _ ((mem_matrixRuns _ _ _ _).mpr ⟨c, hc, rfl⟩) (by rw [checked_cfgRun]; exact hf))
  · intro h r hr hf
    rcases (mem_matrixRuns _ _ _ _).mp hr with ⟨c, hc, rfl⟩
    exact (has_cfgRun reg lintOf c k).mpr (h c hc (by rw [checked_cfgRun] at hf; exact hf))

end Verif.C12
