import Verif.C12.Lemmas
/-
C12 — property theorems.

Statement: "Merging runs keeps a problem of an 'any' check if any run reported it and a
problem of an 'all' check only if every run that checked its file reported it. The result
does not depend on the order of the runs, is unchanged by repeating a run, and annotates
each problem with exactly the build names under which it occurred."

`output runs` is the observable result (descriptor + build names per printed line) for
one particular sort; `out_unique` shows that *every* permutation of `mergeRuns runs`
sorted for the comparator — whatever `sort.Slice` and Go's map iteration produce — gives
the same observable, so all other theorems are stated about `output`.

The only hypothesis is `CaseConsistent runs` (check names spelled in one letter case),
which the world supplies: categories are the analyzer names of one binary.  No hypothesis
about colliding positions/messages is needed any more (comparator fixed in 7e8d496); with
the previous comparator `out_nodup` was false (see `Verif.C12.old_comparator_witness`).
-/
namespace Verif.C12

/-! ### a concrete run set used by the non-vacuity examples
linux reports U1000@1 (all), SA1000@2 (any), U1000@3 (all); windows checked the same file
and reports SA1000@2 and U1000@3.  So U1000@1 is dropped, the other two are kept and
annotated `linux,windows`. -/
def exD (line : Int) (cat : String) (mi : Int) (b : String) : Diag :=
  ⟨⟨⟨"x.go", 0, line, 1⟩, ⟨"", 0, 0, 0⟩, cat, "m"⟩, 0, mi, b⟩
def exLinux : Run := ⟨["x.go"], [exD 1 "U1000" 1 "linux", exD 2 "SA1000" 0 "linux", exD 3 "U1000" 1 "linux"]⟩
def exWindows : Run := ⟨["x.go"], [exD 2 "SA1000" 0 "windows", exD 3 "U1000" 1 "windows"]⟩
def exRuns : List Run := [exLinux, exWindows]

theorem exRuns_cc : CaseConsistent exRuns := by
  intro r hr d hd r' hr' d' hd'
  simp [exRuns, exLinux, exWindows] at hr hr'
  rcases hr with rfl | rfl <;> rcases hr' with rfl | rfl <;> simp at hd hd' <;>
    rcases hd with rfl | rfl | rfl <;> rcases hd' with rfl | rfl | rfl <;> decide

theorem exRuns_output : output exRuns =
    [((exD 2 "SA1000" 0 "").desc, ["linux", "windows"]), ((exD 3 "U1000" 1 "").desc, ["linux", "windows"])] := by
  decide

/-- The comparator, characterised: descriptor order first (a strict total order), build name last. -/
theorem less_spec (a b : Diag) :
    (less a b = true ↔ descLt a.desc b.desc ∨ (a.desc = b.desc ∧ a.build < b.build)) ∧ STO descLt :=
  ⟨less_iff_kLt a b, sto_descLt⟩

example : less ⟨⟨⟨"x.go", 0, 1, 1⟩, ⟨"", 0, 0, 0⟩, "SA1000", "m"⟩, 0, 0, "windows"⟩
               ⟨⟨⟨"x.go", 0, 1, 1⟩, ⟨"", 0, 0, 0⟩, "SA1001", "m"⟩, 0, 0, "linux"⟩ = true := by
  rw [less_iff_kLt]; left
  simp [descLt, keyLt, lexLt, Desc.key, sLt, iLt]
  decide

/-- The driver's sort is one of the admissible sorts. -/
theorem sortDiags_sorted_perm (l : List Diag) : (sortDiags l).Perm l ∧ Sorted (sortDiags l) :=
  ⟨sortDiags_perm l, sortDiags_sorted l⟩

/-- runFromLintResult is a map keyed by descriptor in which the last diagnostic wins. -/
theorem runFromLintResult_last_wins (res : LintResult) (k : Desc) :
    (runFromLintResult res).diags.find? (fun x => x.desc = k)
        = res.diags.reverse.find? (fun x => x.desc = k) ∧
    ((runFromLintResult res).diags.map (fun x => x.desc)).Nodup ∧
    (runFromLintResult res).checked = res.checked := by
  refine ⟨?_, ?_, rfl⟩
  · simp only [runFromLintResult]
    rw [find_foldl_mapSet]; simp
  · exact nodup_keys_foldl res.diags [] (by simp)

/-- Every admissible sort (any permutation sorted for `less`) yields the same observable. -/
theorem out_unique (runs : List Run) (hc : CaseConsistent runs) (s : List Diag)
    (hp : s.Perm (mergeRuns runs)) (hs : Sorted s) : obs (printCore s) = output runs := by
  have hm : ∀ x, x ∈ s ↔ x ∈ sortDiags (mergeRuns runs) := fun x =>
    hp.mem_iff.trans (sortDiags_perm _).mem_iff.symm
  have ok1 : EqOK s := eqOK_of_caseConsistent hc (fun x hx => hp.mem_iff.mp hx)
  have ok2 : EqOK (sortDiags (mergeRuns runs)) :=
    eqOK_of_caseConsistent hc (fun x hx => (sortDiags_perm _).mem_iff.mp hx)
  apply canon_ext (printCore_canon hs) (printCore_canon (sortDiags_sorted _))
  · intro k
    rw [printCore_keys ok1, printCore_keys ok2]
    constructor <;> (rintro ⟨x, hx, h⟩; exact ⟨x, by first | exact (hm x).mp hx | exact (hm x).mpr hx, h⟩)
  · intro k n
    rw [printCore_pairs ok1, printCore_pairs ok2]
    constructor <;> (rintro ⟨x, hx, h⟩; exact ⟨x, by first | exact (hm x).mp hx | exact (hm x).mpr hx, h⟩)

-- non-vacuity: a sorted permutation different from the driver's (equal keys cannot occur here,
-- but the order in which mergeRuns lists the diagnostics is different from the sorted one)
example : obs (printCore [exD 2 "SA1000" 0 "linux", exD 2 "SA1000" 0 "windows", exD 3 "U1000" 1 "linux",
    exD 3 "U1000" 1 "windows"]) = output exRuns :=
  out_unique exRuns exRuns_cc _ (by decide) (by unfold Sorted; decide)

/-- which problems are printed -/
theorem kept_iff (runs : List Run) (hc : CaseConsistent runs) (k : Desc) :
    k ∈ okeys (output runs) ↔ ∃ r ∈ runs, ∃ d ∈ r.diags, d.desc = k ∧ relevant runs d = true := by
  have ok : EqOK (sortDiags (mergeRuns runs)) :=
    eqOK_of_caseConsistent hc (fun x hx => (sortDiags_perm _).mem_iff.mp hx)
  unfold output
  rw [printCore_keys ok]
  constructor
  · rintro ⟨x, hx, h⟩
    rcases (mem_mergeRuns _ _).mp ((sortDiags_perm _).mem_iff.mp hx) with ⟨r, hr, hd, hrel⟩
    exact ⟨r, hr, x, hd, h, hrel⟩
  · rintro ⟨r, hr, d, hd, h, hrel⟩
    exact ⟨d, (sortDiags_perm _).mem_iff.mpr ((mem_mergeRuns _ _).mpr ⟨r, hr, hd, hrel⟩), h⟩

/-- 'any': a problem is kept if any run reported it. -/
theorem keep_any (runs : List Run) (hc : CaseConsistent runs) (r : Run) (hr : r ∈ runs)
    (d : Diag) (hd : d ∈ r.diags) (hany : d.mergeIf = 0) : d.desc ∈ okeys (output runs) :=
  (kept_iff runs hc d.desc).mpr ⟨r, hr, d, hd, rfl, by simp [relevant, hany]⟩

example : (exD 2 "SA1000" 0 "").desc ∈ okeys (output exRuns) :=
  keep_any exRuns exRuns_cc exWindows (by simp [exRuns]) (exD 2 "SA1000" 0 "windows") (by simp [exWindows]) rfl

/-- 'all': a problem (all of whose reports carry the 'all' strategy) is kept iff some run
reported it and every run that checked its file reported it. -/
theorem keep_all (runs : List Run) (hc : CaseConsistent runs) (k : Desc)
    (hall : ∀ r ∈ runs, ∀ d ∈ r.diags, d.desc = k → d.mergeIf = 1) :
    k ∈ okeys (output runs) ↔
      (∃ r ∈ runs, r.has k = true) ∧ ∀ r ∈ runs, k.pos.file ∈ r.checked → r.has k = true := by
  rw [kept_iff runs hc]
  constructor
  · rintro ⟨r, hr, d, hd, hk, hrel⟩
    have h1 := hall r hr d hd hk
    simp only [relevant, h1] at hrel
    have := (keepAll_iff runs d).mp (by simpa using hrel)
    rw [hk] at this
    exact ⟨⟨r, hr, (Run.has_iff r k).mpr ⟨d, hd, hk⟩⟩, this⟩
  · rintro ⟨⟨r, hr, hh⟩, hev⟩
    rcases (Run.has_iff r k).mp hh with ⟨d, hd, hk⟩
    refine ⟨r, hr, d, hd, hk, ?_⟩
    have h1 := hall r hr d hd hk
    have : keepAll runs d = true := (keepAll_iff runs d).mpr (by rw [hk]; exact hev)
    simp [relevant, h1, this]

-- non-vacuity: an 'all' problem dropped (windows checked x.go and is silent) and one kept
example : (exD 1 "U1000" 1 "").desc ∉ okeys (output exRuns) ∧ (exD 3 "U1000" 1 "").desc ∈ okeys (output exRuns) := by
  constructor
  · rw [keep_all exRuns exRuns_cc _ (by decide)]; decide
  · rw [keep_all exRuns exRuns_cc _ (by decide)]; decide

/-- No problem is printed twice (descriptors of the printed lines are strictly increasing). -/
theorem out_nodup (runs : List Run) : (okeys (output runs)).Nodup ∧ Canon (output runs) := by
  have c : Canon (output runs) := printCore_canon (sortDiags_sorted _)
  refine ⟨?_, c⟩
  exact List.Pairwise.imp (fun {a b} (h : descLt a b) (e : a = b) =>
    sto_descLt.irrefl a (by rw [← e] at h; exact h)) c.keys

example : (okeys (output exRuns)).length = 2 := by decide

/-- `n` is a build under which problem `k` occurred (and was kept) -/
def Reported (runs : List Run) (k : Desc) (n : String) : Prop :=
  ∃ r ∈ runs, ∃ d ∈ r.diags, d.desc = k ∧ d.build = n ∧ relevant runs d = true

/-- Each printed problem carries exactly the build names of the runs whose (kept) report
it is, as a strictly increasing list. -/
theorem builds_exact (runs : List Run) (hc : CaseConsistent runs) (k : Desc) (ns : List String)
    (h : (k, ns) ∈ output runs) :
    (∀ n, n ∈ ns ↔ Reported runs k n) ∧ ns.Pairwise (fun a b => a < b) := by
  have c : Canon (output runs) := (out_nodup runs).2
  have ok : EqOK (sortDiags (mergeRuns runs)) :=
    eqOK_of_caseConsistent hc (fun x hx => (sortDiags_perm _).mem_iff.mp hx)
  refine ⟨?_, c.names _ h⟩
  intro n
  have hp := printCore_pairs ok k n
  constructor
  · intro hn
    rcases hp.mp ⟨ns, h, hn⟩ with ⟨x, hx, hk, hb⟩
    rcases (mem_mergeRuns _ _).mp ((sortDiags_perm _).mem_iff.mp hx) with ⟨r, hr, hd, hrel⟩
    exact ⟨r, hr, x, hd, hk, hb, hrel⟩
  · rintro ⟨r, hr, d, hd, hk, hb, hrel⟩
    rcases hp.mpr ⟨d, (sortDiags_perm _).mem_iff.mpr ((mem_mergeRuns _ _).mpr ⟨r, hr, hd, hrel⟩), hk, hb⟩
      with ⟨ms, hms, hn⟩
    rw [canon_unique_entry c.keys h hms]; exact hn

example : ∀ n, n ∈ ["linux", "windows"] ↔ Reported exRuns (exD 3 "U1000" 1 "").desc n :=
  (builds_exact exRuns exRuns_cc _ _ (by rw [exRuns_output]; simp)).1

/-- the merge strategy is a function of the check, hence of the descriptor -/
def UniformStrategy (runs : List Run) : Prop :=
  ∀ r ∈ runs, ∀ d ∈ r.diags, ∀ r' ∈ runs, ∀ d' ∈ r'.diags, d.desc = d'.desc → d.mergeIf = d'.mergeIf

/-- With one strategy per check: a printed problem is annotated with exactly the build
names of the runs that reported it. -/
theorem builds_exact_uniform (runs : List Run) (hc : CaseConsistent runs) (hu : UniformStrategy runs)
    (k : Desc) (ns : List String) (h : (k, ns) ∈ output runs) (n : String) :
    n ∈ ns ↔ ∃ r ∈ runs, ∃ d ∈ r.diags, d.desc = k ∧ d.build = n := by
  rw [(builds_exact runs hc k ns h).1 n]
  constructor
  · rintro ⟨r, hr, d, hd, hk, hb, _⟩; exact ⟨r, hr, d, hd, hk, hb⟩
  · rintro ⟨r, hr, d, hd, hk, hb⟩
    have hkk : k ∈ okeys (output runs) := List.mem_map.mpr ⟨(k, ns), h, rfl⟩
    rcases (kept_iff runs hc k).mp hkk with ⟨r0, hr0, d0, hd0, hk0, hrel0⟩
    refine ⟨r, hr, d, hd, hk, hb, ?_⟩
    have hm : d.mergeIf = d0.mergeIf := hu r hr d hd r0 hr0 d0 hd0 (hk.trans hk0.symm)
    have hdd : d.desc = d0.desc := hk.trans hk0.symm
    simp only [relevant, keepAll, hm, hdd] at hrel0 ⊢
    exact hrel0

example : UniformStrategy exRuns ∧
    ("windows" ∈ ["linux", "windows"] ↔ ∃ r ∈ exRuns, ∃ d ∈ r.diags, d.desc = (exD 2 "SA1000" 0 "").desc ∧ d.build = "windows") :=
  have hu : UniformStrategy exRuns := by unfold UniformStrategy; decide
  ⟨hu, builds_exact_uniform exRuns exRuns_cc hu _ _ (by rw [exRuns_output]; simp) "windows"⟩

/-- The result depends only on the *set* of runs. -/
theorem output_congr (runs runs' : List Run) (hc : CaseConsistent runs)
    (h : ∀ r, r ∈ runs ↔ r ∈ runs') : output runs = output runs' := by
  have hc' : CaseConsistent runs' := hc.congr h
  have ok : EqOK (sortDiags (mergeRuns runs)) :=
    eqOK_of_caseConsistent hc (fun x hx => (sortDiags_perm _).mem_iff.mp hx)
  have ok' : EqOK (sortDiags (mergeRuns runs')) :=
    eqOK_of_caseConsistent hc' (fun x hx => (sortDiags_perm _).mem_iff.mp hx)
  have hm : ∀ x, x ∈ sortDiags (mergeRuns runs) ↔ x ∈ sortDiags (mergeRuns runs') := fun x =>
    (sortDiags_perm _).mem_iff.trans ((mem_mergeRuns_congr h x).trans (sortDiags_perm _).mem_iff.symm)
  apply canon_ext (printCore_canon (sortDiags_sorted _)) (printCore_canon (sortDiags_sorted _))
  · intro k
    rw [printCore_keys ok, printCore_keys ok']
    constructor <;> (rintro ⟨x, hx, hh⟩; exact ⟨x, by first | exact (hm x).mp hx | exact (hm x).mpr hx, hh⟩)
  · intro k n
    rw [printCore_pairs ok, printCore_pairs ok']
    constructor <;> (rintro ⟨x, hx, hh⟩; exact ⟨x, by first | exact (hm x).mp hx | exact (hm x).mpr hx, hh⟩)

/-- Order independence: permuting the runs does not change the result. -/
theorem merge_comm (runs runs' : List Run) (hc : CaseConsistent runs) (hp : runs.Perm runs') :
    output runs = output runs' :=
  output_congr runs runs' hc (fun _ => hp.mem_iff)

example : output [exWindows, exLinux] = output exRuns :=
  (merge_comm exRuns [exWindows, exLinux] exRuns_cc (List.Perm.swap _ _ _)).symm

/-- Repeating a run changes nothing. -/
theorem merge_idem (r : Run) (rs : List Run) (hc : CaseConsistent (r :: rs)) :
    output (r :: r :: rs) = output (r :: rs) := by
  have h : ∀ x, x ∈ r :: rs ↔ x ∈ r :: r :: rs := by intro x; simp
  exact (output_congr (r :: rs) (r :: r :: rs) hc h).symm

example : output [exLinux, exLinux, exWindows] = output exRuns := merge_idem exLinux [exWindows] exRuns_cc

/-- … wherever the repetition is inserted. -/
theorem merge_idem_mem (r : Run) (rs : List Run) (hc : CaseConsistent rs) (hr : r ∈ rs) :
    output (r :: rs) = output rs := by
  have h : ∀ x, x ∈ rs ↔ x ∈ r :: rs := by
    intro x; constructor
    · exact List.mem_cons_of_mem _
    · intro hx; rcases List.mem_cons.mp hx with e | e
      · exact e ▸ hr
      · exact e
  exact (output_congr rs (r :: rs) hc h).symm

example : output [exWindows, exLinux, exWindows] = output [exLinux, exWindows] :=
  merge_idem_mem exWindows [exLinux, exWindows] exRuns_cc (by simp)

/-! ### the comparator before 7e8d496 did not have these properties -/

/-- `less` as it was: BuildName before Category, End and Offset never compared. -/
def lessOld (a b : Diag) : Bool :=
  if a.desc.pos.file ≠ b.desc.pos.file then decide (a.desc.pos.file < b.desc.pos.file)
  else if a.desc.pos.line ≠ b.desc.pos.line then decide (a.desc.pos.line < b.desc.pos.line)
  else if a.desc.pos.col ≠ b.desc.pos.col then decide (a.desc.pos.col < b.desc.pos.col)
  else if a.desc.msg ≠ b.desc.msg then decide (a.desc.msg < b.desc.msg)
  else if a.build ≠ b.build then decide (a.build < b.build)
  else decide (a.desc.cat < b.desc.cat)

def oldRuns : List Run :=
  [⟨["x.go"], [exD 1 "SA1000" 0 "linux", exD 1 "SA1001" 0 "linux"]⟩,
   ⟨["x.go"], [exD 1 "SA1000" 0 "windows", exD 1 "SA1001" 0 "windows"]⟩]

/-- DESIGN.md section 6 row 12: for the old comparator the list mergeRuns produces is
already sorted, and the de-duplication then prints every problem twice. -/
theorem old_comparator_witness :
    (mergeRuns oldRuns).Pairwise (fun a b => lessOld b a = false) ∧
    ¬ (okeys (obs (printCore (mergeRuns oldRuns)))).Nodup ∧
    (okeys (output oldRuns)).Nodup := by
  refine ⟨by decide, by decide, (out_nodup oldRuns).1⟩

end Verif.C12
