import Verif.C12.Lemmas
import Verif.C12.Order
import Verif.C12.MatrixTheory
import Verif.C12.Generated
/-
C12 — property theorems.

Statement: "Merging runs keeps a problem of an 'any' check if any run reported it and a
problem of an 'all' check only if every run that checked its file reported it. The result
does not depend on the order of the runs, is unchanged by repeating a run, and annotates
each problem with exactly the build names under which it occurred."

`output runs` is the observable result (descriptor + build names per printed line) for
one particular sort; `out_unique` shows that *every* permutation of `mergeRuns runs`
sorted for the comparator — whatever `sort.Slice` and Go's map iteration produce — gives
the same observable, so all other theorems are stated about `output`.

The only hypothesis is `CaseConsistent runs` (check names spelled in one letter case),
which the world supplies: categories are the analyzer names of one binary.  No hypothesis
about colliding positions/messages is needed any more (comparator fixed in 7e8d496); with
the previous comparator `out_nodup` was false (see `Verif.C12.old_comparator_witness`).
-/
namespace Verif.C12

/-! ### a concrete run set used by the non-vacuity examples
linux reports U1000@1 (all), SA1000@2 (any), U1000@3 (all); windows checked the same file
and reports SA1000@2 and U1000@3.  So U1000@1 is dropped, the other two are kept and
annotated `linux,windows`. -/
def exD (line : Int) (cat : String) (mi : Int) (b : String) : Diag :=
  ⟨⟨⟨"x.go", 0, line, 1⟩, ⟨"", 0, 0, 0⟩, cat, "m"⟩, 0, mi, b⟩
def exLinux : Run := ⟨["x.go"], [exD 1 "U1000" 1 "linux", exD 2 "SA1000" 0 "linux", exD 3 "U1000" 1 "linux"]⟩
def exWindows : Run := ⟨["x.go"], [exD 2 "SA1000" 0 "windows", exD 3 "U1000" 1 "windows"]⟩
def exRuns : List Run := [exLinux, exWindows]

theorem exRuns_cc : CaseConsistent exRuns := by
  intro r hr d hd r' hr' d' hd'
  simp [exRuns, exLinux, exWindows] at hr hr'
  rcases hr with rfl | rfl <;> rcases hr' with rfl | rfl <;> simp at hd hd' <;>
    rcases hd with rfl | rfl | rfl <;> rcases hd' with rfl | rfl | rfl <;> decide

theorem exRuns_output : output exRuns =
    [((exD 2 "SA1000" 0 "").desc, ["linux", "windows"]), ((exD 3 "U1000" 1 "").desc, ["linux", "windows"])] := by
  decide

/-- The comparator, characterised: descriptor order first (a strict total order), build name last. -/
theorem less_spec (a b : Diag) :
    (less a b = true ↔ descLt a.desc b.desc ∨ (a.desc = b.desc ∧ a.build < b.build)) ∧ STO descLt :=
  ⟨less_iff_kLt a b, sto_descLt⟩

example : less ⟨⟨⟨"x.go", 0, 1, 1⟩, ⟨"", 0, 0, 0⟩, "SA1000", "m"⟩, 0, 0, "windows"⟩
               ⟨⟨⟨"x.go", 0, 1, 1⟩, ⟨"", 0, 0, 0⟩, "SA1001", "m"⟩, 0, 0, "linux"⟩ = true := by
  rw [less_iff_kLt]; left
  simp [descLt, keyLt, lexLt, Desc.key, sLt, iLt]
  decide

/-- The driver's sort is one of the admissible sorts. -/
theorem sortDiags_sorted_perm (l : List Diag) : (sortDiags l).Perm l ∧ Sorted (sortDiags l) :=
  ⟨sortDiags_perm l, sortDiags_sorted l⟩

/-- runFromLintResult is a map keyed by descriptor in which the last diagnostic wins. -/
theorem runFromLintResult_last_wins (res : LintResult) (k : Desc) :
    (runFromLintResult res).diags.find? (fun x => x.desc = k)
        = res.diags.reverse.find? (fun x => x.desc = k) ∧
    ((runFromLintResult res).diags.map (fun x => x.desc)).Nodup ∧
    (runFromLintResult res).checked = res.checked := by
  refine ⟨?_, ?_, rfl⟩
  · simp only [runFromLintResult]
    rw [find_foldl_mapSet]; simp
  · exact nodup_keys_foldl res.diags [] (by simp)

/-- Every admissible sort (any permutation sorted for `less`) yields the same observable. -/
theorem out_unique (runs : List Run) (hc : CaseConsistent runs) (s : List Diag)
    (hp : s.Perm (mergeRuns runs)) (hs : Sorted s) : obs (printCore s) = output runs := by
  have hm : ∀ x, x ∈ s ↔ x ∈ sortDiags (mergeRuns runs) := fun x =>
    hp.mem_iff.trans (sortDiags_perm _).mem_iff.symm
  have ok1 : EqOK s := eqOK_of_caseConsistent hc (fun x hx => hp.mem_iff.mp hx)
  have ok2 : EqOK (sortDiags (mergeRuns runs)) :=
    eqOK_of_caseConsistent hc (fun x hx => (sortDiags_perm _).mem_iff.mp hx)
  apply canon_ext (printCore_canon hs) (printCore_canon (sortDiags_sorted _))
  · intro k
    rw [printCore_keys ok1, printCore_keys ok2]
    constructor <;> (rintro ⟨x, hx, h⟩; exact ⟨x, by first | exact (hm x).mp hx | exact (hm x).mpr hx, h⟩)
  · intro k n
    rw [printCore_pairs ok1, printCore_pairs ok2]
    constructor <;> (rintro ⟨x, hx, h⟩; exact ⟨x, by first | exact (hm x).mp hx | exact (hm x).mpr hx, h⟩)

-- non-vacuity: a sorted permutation different from the driver's (equal keys cannot occur here,
-- but the order in which mergeRuns lists the diagnostics is different from the sorted one)
example : obs (printCore [exD 2 "SA1000" 0 "linux", exD 2 "SA1000" 0 "windows", exD 3 "U1000" 1 "linux",
    exD 3 "U1000" 1 "windows"]) = output exRuns :=
  out_unique exRuns exRuns_cc _ (by decide) (by unfold Sorted; decide)

/-- which problems are printed -/
theorem kept_iff (runs : List Run) (hc : CaseConsistent runs) (k : Desc) :
    k ∈ okeys (output runs) ↔ ∃ r ∈ runs, ∃ d ∈ r.diags, d.desc = k ∧ relevant runs d = true := by
  have ok : EqOK (sortDiags (mergeRuns runs)) :=
    eqOK_of_caseConsistent hc (fun x hx => (sortDiags_perm _).mem_iff.mp hx)
  unfold output
  rw [printCore_keys ok]
  constructor
  · rintro ⟨x, hx, h⟩
    rcases (mem_mergeRuns _ _).mp ((sortDiags_perm _).mem_iff.mp hx) with ⟨r, hr, hd, hrel⟩
    exact ⟨r, hr, x, hd, h, hrel⟩
  · rintro ⟨r, hr, d, hd, h, hrel⟩
    exact ⟨d, (sortDiags_perm _).mem_iff.mpr ((mem_mergeRuns _ _).mpr ⟨r, hr, hd, hrel⟩), h⟩

/-- 'any': a problem is kept if any run reported it. -/
theorem keep_any (runs : List Run) (hc : CaseConsistent runs) (r : Run) (hr : r ∈ runs)
    (d : Diag) (hd : d ∈ r.diags) (hany : d.mergeIf = 0) : d.desc ∈ okeys (output runs) :=
  (kept_iff runs hc d.desc).mpr ⟨r, hr, d, hd, rfl, by simp [relevant, hany]⟩

example : (exD 2 "SA1000" 0 "").desc ∈ okeys (output exRuns) :=
  keep_any exRuns exRuns_cc exWindows (by simp [exRuns]) (exD 2 "SA1000" 0 "windows") (by simp [exWindows]) rfl

/-- 'all': a problem (all of whose reports carry the 'all' strategy) is kept iff some run
reported it and every run that checked its file reported it. -/
theorem keep_all (runs : List Run) (hc : CaseConsistent runs) (k : Desc)
    (hall : ∀ r ∈ runs, ∀ d ∈ r.diags, d.desc = k → d.mergeIf = 1) :
    k ∈ okeys (output runs) ↔
      (∃ r ∈ runs, r.has k = true) ∧ ∀ r ∈ runs, k.pos.file ∈ r.checked → r.has k = true := by
  rw [kept_iff runs hc]
  constructor
  · rintro ⟨r, hr, d, hd, hk, hrel⟩
    have h1 := hall r hr d hd hk
    simp only [relevant, h1] at hrel
    have := (keepAll_iff runs d).mp (by simpa using hrel)
    rw [hk] at this
    exact ⟨⟨r, hr, (Run.has_iff r k).mpr ⟨d, hd, hk⟩⟩, this⟩
  · rintro ⟨⟨r, hr, hh⟩, hev⟩
    rcases (Run.has_iff r k).mp hh with ⟨d, hd, hk⟩
    refine ⟨r, hr, d, hd, hk, ?_⟩
    have h1 := hall r hr d hd hk
    have : keepAll runs d = true := (keepAll_iff runs d).mpr (by rw [hk]; exact hev)
    simp [relevant, h1, this]

-- non-vacuity: an 'all' problem dropped (windows checked x.go and is silent) and one kept
example : (exD 1 "U1000" 1 "").desc ∉ okeys (output exRuns) ∧ (exD 3 "U1000" 1 "").desc ∈ okeys (output exRuns) := by
  constructor
  · rw [keep_all exRuns exRuns_cc _ (by decide)]; decide
  · rw [keep_all exRuns exRuns_cc _ (by decide)]; decide

/-- No problem is printed twice (descriptors of the printed lines are strictly increasing). -/
theorem out_nodup (runs : List Run) : (okeys (output runs)).Nodup ∧ Canon (output runs) := by
  have c : Canon (output runs) := printCore_canon (sortDiags_sorted _)
  refine ⟨?_, c⟩
  exact List.Pairwise.imp (fun {a b} (h : descLt a b) (e : a = b) =>
    sto_descLt.irrefl a (by rw [← e] at h; exact h)) c.keys

example : (okeys (output exRuns)).length = 2 := by decide

/-- `n` is a build under which problem `k` occurred (and was kept) -/
def Reported (runs : List Run) (k : Desc) (n : String) : Prop :=
  ∃ r ∈ runs, ∃ d ∈ r.diags, d.desc = k ∧ d.build = n ∧ relevant runs d = true

/-- Each printed problem carries exactly the build names of the runs whose (kept) report
it is, as a strictly increasing list. -/
theorem builds_exact (runs : List Run) (hc : CaseConsistent runs) (k : Desc) (ns : List String)
    (h : (k, ns) ∈ output runs) :
    (∀ n, n ∈ ns ↔ Reported runs k n) ∧ ns.Pairwise (fun a b => a < b) := by
  have c : Canon (output runs) := (out_nodup runs).2
  have ok : EqOK (sortDiags (mergeRuns runs)) :=
    eqOK_of_caseConsistent hc (fun x hx => (sortDiags_perm _).mem_iff.mp hx)
  refine ⟨?_, c.names _ h⟩
  intro n
  have hp := printCore_pairs ok k n
  constructor
  · intro hn
    rcases hp.mp ⟨ns, h, hn⟩ with ⟨x, hx, hk, hb⟩
    rcases (mem_mergeRuns _ _).mp ((sortDiags_perm _).mem_iff.mp hx) with ⟨r, hr, hd, hrel⟩
    exact ⟨r, hr, x, hd, hk, hb, hrel⟩
  · rintro ⟨r, hr, d, hd, hk, hb, hrel⟩
    rcases hp.mpr ⟨d, (sortDiags_perm _).mem_iff.mpr ((mem_mergeRuns _ _).mpr ⟨r, hr, hd, hrel⟩), hk, hb⟩
      with ⟨ms, hms, hn⟩
    rw [canon_unique_entry c.keys h hms]; exact hn

example : ∀ n, n ∈ ["linux", "windows"] ↔ Reported exRuns (exD 3 "U1000" 1 "").desc n :=
  (builds_exact exRuns exRuns_cc _ _ (by rw [exRuns_output]; simp)).1

/-- the merge strategy is a function of the check, hence of the descriptor -/
def UniformStrategy (runs : List Run) : Prop :=
  ∀ r ∈ runs, ∀ d ∈ r.diags, ∀ r' ∈ runs, ∀ d' ∈ r'.diags, d.desc = d'.desc → d.mergeIf = d'.mergeIf

/-- With one strategy per check: a printed problem is annotated with exactly the build
names of the runs that reported it. -/
theorem builds_exact_uniform (runs : List Run) (hc : CaseConsistent runs) (hu : UniformStrategy runs)
    (k : Desc) (ns : List String) (h : (k, ns) ∈ output runs) (n : String) :
    n ∈ ns ↔ ∃ r ∈ runs, ∃ d ∈ r.diags, d.desc = k ∧ d.build = n := by
  rw [(builds_exact runs hc k ns h).1 n]
  constructor
  · rintro ⟨r, hr, d, hd, hk, hb, _⟩; exact ⟨r, hr, d, hd, hk, hb⟩
  · rintro ⟨r, hr, d, hd, hk, hb⟩
    have hkk : k ∈ okeys (output runs) := List.mem_map.mpr ⟨(k, ns), h, rfl⟩
    rcases (kept_iff runs hc k).mp hkk with ⟨r0, hr0, d0, hd0, hk0, hrel0⟩
    refine ⟨r, hr, d, hd, hk, hb, ?_⟩
    have hm : d.mergeIf = d0.mergeIf := hu r hr d hd r0 hr0 d0 hd0 (hk.trans hk0.symm)
    have hdd : d.desc = d0.desc := hk.trans hk0.symm
    simp only [relevant, keepAll, hm, hdd] at hrel0 ⊢
    exact hrel0

example : UniformStrategy exRuns ∧
    ("windows" ∈ ["linux", "windows"] ↔ ∃ r ∈ exRuns, ∃ d ∈ r.diags, d.desc = (exD 2 "SA1000" 0 "").desc ∧ d.build = "windows") :=
  have hu : UniformStrategy exRuns := by unfold UniformStrategy; decide
  ⟨hu, builds_exact_uniform exRuns exRuns_cc hu _ _ (by rw [exRuns_output]; simp) "windows"⟩

/-- The result depends only on the *set* of runs. -/
theorem output_congr (runs runs' : List Run) (hc : CaseConsistent runs)
    (h : ∀ r, r ∈ runs ↔ r ∈ runs') : output runs = output runs' := by
  have hc' : CaseConsistent runs' := hc.congr h
  have ok : EqOK (sortDiags (mergeRuns runs)) :=
    eqOK_of_caseConsistent hc (fun x hx => (sortDiags_perm _).mem_iff.mp hx)
  have ok' : EqOK (sortDiags (mergeRuns runs')) :=
    eqOK_of_caseConsistent hc' (fun x hx => (sortDiags_perm _).mem_iff.mp hx)
  have hm : ∀ x, x ∈ sortDiags (mergeRuns runs) ↔ x ∈ sortDiags (mergeRuns runs') := fun x =>
    (sortDiags_perm _).mem_iff.trans ((mem_mergeRuns_congr h x).trans (sortDiags_perm _).mem_iff.symm)
  apply canon_ext (printCore_canon (sortDiags_sorted _)) (printCore_canon (sortDiags_sorted _))
  · intro k
    rw [printCore_keys ok, printCore_keys ok']
    constructor <;> (rintro ⟨x, hx, hh⟩; exact ⟨x, by first | exact (hm x).mp hx | exact (hm x).mpr hx, hh⟩)
  · intro k n
    rw [printCore_pairs ok, printCore_pairs ok']
    constructor <;> (rintro ⟨x, hx, hh⟩; exact ⟨x, by first | exact (hm x).mp hx | exact (hm x).mpr hx, hh⟩)

/-- Order independence: permuting the runs does not change the result. -/
theorem merge_comm (runs runs' : List Run) (hc : CaseConsistent runs) (hp : runs.Perm runs') :
    output runs = output runs' :=
  output_congr runs runs' hc (fun _ => hp.mem_iff)

example : output [exWindows, exLinux] = output exRuns :=
  (merge_comm exRuns [exWindows, exLinux] exRuns_cc (List.Perm.swap _ _ _)).symm

/-- Repeating a run changes nothing. -/
theorem merge_idem (r : Run) (rs : List Run) (hc : CaseConsistent (r :: rs)) :
    output (r :: r :: rs) = output (r :: rs) := by
  have h : ∀ x, x ∈ r :: rs ↔ x ∈ r :: r :: rs := by intro x; simp
  exact (output_congr (r :: rs) (r :: r :: rs) hc h).symm

example : output [exLinux, exLinux, exWindows] = output exRuns := merge_idem exLinux [exWindows] exRuns_cc

/-- … wherever the repetition is inserted. -/
theorem merge_idem_mem (r : Run) (rs : List Run) (hc : CaseConsistent rs) (hr : r ∈ rs) :
    output (r :: rs) = output rs := by
  have h : ∀ x, x ∈ rs ↔ x ∈ r :: rs := by
    intro x; constructor
    · exact List.mem_cons_of_mem _
    · intro hx; rcases List.mem_cons.mp hx with e | e
      · exact e ▸ hr
      · exact e
  exact (output_congr rs (r :: rs) hc h).symm

example : output [exWindows, exLinux, exWindows] = output [exLinux, exWindows] :=
  merge_idem_mem exWindows [exLinux, exWindows] exRuns_cc (by simp)

/-! ### the comparator before 7e8d496 did not have these properties -/

/-- `less` as it was: BuildName before Category, End and Offset never compared. -/
def lessOld (a b : Diag) : Bool :=
  if a.desc.pos.file ≠ b.desc.pos.file then decide (a.desc.pos.file < b.desc.pos.file)
  else if a.desc.pos.line ≠ b.desc.pos.line then decide (a.desc.pos.line < b.desc.pos.line)
  else if a.desc.pos.col ≠ b.desc.pos.col then decide (a.desc.pos.col < b.desc.pos.col)
  else if a.desc.msg ≠ b.desc.msg then decide (a.desc.msg < b.desc.msg)
  else if a.build ≠ b.build then decide (a.build < b.build)
  else decide (a.desc.cat < b.desc.cat)

def oldRuns : List Run :=
  [⟨["x.go"], [exD 1 "SA1000" 0 "linux", exD 1 "SA1001" 0 "linux"]⟩,
   ⟨["x.go"], [exD 1 "SA1000" 0 "windows", exD 1 "SA1001" 0 "windows"]⟩]

/-- DESIGN.md section 6 row 12: for the old comparator the list mergeRuns produces is
already sorted, and the de-duplication then prints every problem twice. -/
theorem old_comparator_witness :
    (mergeRuns oldRuns).Pairwise (fun a b => lessOld b a = false) ∧
    ¬ (okeys (obs (printCore (mergeRuns oldRuns)))).Nodup ∧
    (okeys (output oldRuns)).Nodup := by
  refine ⟨by decide, by decide, (out_nodup oldRuns).1⟩


/-! ## Strengthening round: mixed strategies, the hypothesis CaseConsistent, the comparator
of the source, `-f binary` normalisation, the `-matrix` parser and the matrix clause -/

/-! ### any/all for arbitrary (also mixed) strategies of one descriptor -/

/-- The any/all rule without any assumption on how strategies are distributed: a problem
is printed iff some run reports it with the 'any' strategy, or some run reports it with
the 'all' strategy and every run that checked its file reports it (with whatever
strategy).  Reports with another strategy value never make a problem appear. -/
theorem kept_iff_strategies (runs : List Run) (hc : CaseConsistent runs) (k : Desc) :
    k ∈ okeys (output runs) ↔
      (∃ r ∈ runs, ∃ d ∈ r.diags, d.desc = k ∧ d.mergeIf = 0) ∨
      ((∃ r ∈ runs, ∃ d ∈ r.diags, d.desc = k ∧ d.mergeIf = 1) ∧
        ∀ r ∈ runs, k.pos.file ∈ r.checked → r.has k = true) := by
  rw [kept_iff runs hc]
  constructor
  · rintro ⟨r, hr, d, hd, hk, hrel⟩
    unfold relevant at hrel
    split at hrel
    · rename_i h0; exact Or.inl ⟨r, hr, d, hd, hk, h0⟩
    · split at hrel
      · rename_i _ h1
        have := (keepAll_iff runs d).mp hrel
        rw [hk] at this
        exact Or.inr ⟨⟨r, hr, d, hd, hk, h1⟩, this⟩
      · cases hrel
  · rintro (⟨r, hr, d, hd, hk, h0⟩ | ⟨⟨r, hr, d, hd, hk, h1⟩, hall⟩)
    · exact ⟨r, hr, d, hd, hk, by simp [relevant, h0]⟩
    · refine ⟨r, hr, d, hd, hk, ?_⟩
      have : keepAll runs d = true := (keepAll_iff runs d).mpr (by rw [hk]; exact hall)
      simp [relevant, h1, this]

/-- a run set in which one descriptor is reported with the 'all' strategy by linux (and
dropped there: windows checked the file and is silent about line 1) while line 3 is
reported as 'all' by linux and as 'any' by windows -/
def mixRuns : List Run :=
  [⟨["x.go"], [exD 1 "U1000" 1 "linux", exD 3 "S1" 1 "linux"]⟩,
   ⟨["x.go"], [exD 3 "S1" 0 "windows"]⟩,
   ⟨["x.go"], [exD 5 "S2" 7 "darwin"]⟩]

theorem mixRuns_cc : CaseConsistent mixRuns := by
  intro r hr d hd r' hr' d' hd'
  simp [mixRuns] at hr hr'
  rcases hr with rfl | rfl | rfl <;> rcases hr' with rfl | rfl | rfl <;> simp at hd hd' <;>
    (try rcases hd with rfl | rfl) <;> (try rcases hd' with rfl | rfl) <;> (try subst hd) <;>
    (try subst hd') <;> decide

-- non-vacuity: both disjuncts and the negative case occur in `mixRuns`
example : (exD 3 "S1" 0 "").desc ∈ okeys (output mixRuns) ∧ (exD 1 "U1000" 1 "").desc ∉ okeys (output mixRuns) ∧
    (exD 5 "S2" 7 "").desc ∉ okeys (output mixRuns) := by
  refine ⟨?_, ?_, ?_⟩
  · rw [kept_iff_strategies mixRuns mixRuns_cc]; decide
  · rw [kept_iff_strategies mixRuns mixRuns_cc]; decide
  · rw [kept_iff_strategies mixRuns mixRuns_cc]; decide

/-- Build names for arbitrary strategies: a printed problem carries exactly the build
names of those of its reports that the any/all rule accepts. -/
theorem builds_exact_strategies (runs : List Run) (hc : CaseConsistent runs) (k : Desc) (ns : List String)
    (h : (k, ns) ∈ output runs) (n : String) :
    n ∈ ns ↔ ∃ r ∈ runs, ∃ d ∈ r.diags, d.desc = k ∧ d.build = n ∧
      (d.mergeIf = 0 ∨ (d.mergeIf = 1 ∧ ∀ r' ∈ runs, k.pos.file ∈ r'.checked → r'.has k = true)) := by
  rw [(builds_exact runs hc k ns h).1 n]
  unfold Reported
  constructor
  · rintro ⟨r, hr, d, hd, hk, hb, hrel⟩
    refine ⟨r, hr, d, hd, hk, hb, ?_⟩
    unfold relevant at hrel
    split at hrel
    · rename_i h0; exact Or.inl h0
    · split at hrel
      · rename_i _ h1
        have := (keepAll_iff runs d).mp hrel
        rw [hk] at this
        exact Or.inr ⟨h1, this⟩
      · cases hrel
  · rintro ⟨r, hr, d, hd, hk, hb, h0 | ⟨h1, hall⟩⟩
    · exact ⟨r, hr, d, hd, hk, hb, by simp [relevant, h0]⟩
    · have : keepAll runs d = true := (keepAll_iff runs d).mpr (by rw [hk]; exact hall)
      exact ⟨r, hr, d, hd, hk, hb, by simp [relevant, h1, this]⟩

-- linux' report of line 3 carries 'all' and is not accepted (darwin checked x.go and is
-- silent), windows' report carries 'any': the line is printed for windows only
theorem mixRuns_output : output mixRuns = [((exD 3 "S1" 0 "").desc, ["windows"])] := by decide

example : "windows" ∈ ["windows"] ↔ ∃ r ∈ mixRuns, ∃ d ∈ r.diags, d.desc = (exD 3 "S1" 0 "").desc ∧ d.build = "windows" ∧
      (d.mergeIf = 0 ∨ (d.mergeIf = 1 ∧ ∀ r' ∈ mixRuns, (exD 3 "S1" 0 "").desc.pos.file ∈ r'.checked → r'.has (exD 3 "S1" 0 "").desc = true)) :=
  builds_exact_strategies mixRuns mixRuns_cc _ _ (by rw [mixRuns_output]; simp) "windows"

/-! ### the hypothesis CaseConsistent is necessary -/

def ciRun : Run := ⟨["x.go"], [exD 1 "SA1000" 0 "linux", exD 1 "sa1000" 0 "linux"]⟩
def ciRuns : List Run := [ciRun]

/-- Without `CaseConsistent` the property is false for the code as it is: `diagnostic.equal`
folds the case of the category, the descriptor does not, so of two problems of 'any'
checks that differ only in the spelling of the check one is swallowed.  (The check feeds
exactly such runs to the real binary and compares with the model; the hypothesis itself
is probed on the real registry: analyzer names are distinct after case folding.) -/
theorem case_inconsistent_witness :
    ¬ CaseConsistent ciRuns ∧
    (∃ r ∈ ciRuns, ∃ d ∈ r.diags, d.mergeIf = 0 ∧ d.desc ∉ okeys (output ciRuns)) ∧
    output ciRuns = [((exD 1 "SA1000" 0 "").desc, ["linux"])] := by
  refine ⟨?_, ?_, by decide⟩
  · intro h
    have := h ciRun (by simp [ciRuns]) (exD 1 "SA1000" 0 "linux") (by simp [ciRun])
      ciRun (by simp [ciRuns]) (exD 1 "sa1000" 0 "linux") (by simp [ciRun]) (by decide)
    revert this; decide
  · exact ⟨ciRun, by simp [ciRuns], exD 1 "sa1000" 0 "linux", by simp [ciRun], rfl, by decide⟩

/-! ### the comparator of the source (tie G) -/

/-- For EVERY comparator that decides by a strict total order on descriptors first — in
particular `lessG fs` for every field order `fs` that compares all ten descriptor fields
before any other field — and every permutation of `mergeRuns runs` sorted for it: no
problem is printed twice, and the printed lines (descriptor + build names) are, as a set,
exactly those of `output runs`. -/
theorem out_any_desc_first_order (dlt : Desc → Desc → Prop) (hd : STO dlt) (lt : Diag → Diag → Prop)
    (hlt : ∀ a b : Diag, dlt a.desc b.desc → lt a b)
    (runs : List Run) (hc : CaseConsistent runs) (s : List Diag)
    (hp : s.Perm (mergeRuns runs)) (hs : SortedBy lt s) :
    (okeys (obs (printCore s))).Pairwise dlt ∧ (okeys (obs (printCore s))).Nodup ∧
    ∀ k ns, (k, ns) ∈ obs (printCore s) ↔ (k, ns) ∈ output runs := by
  have hm : ∀ x, x ∈ s ↔ x ∈ sortDiags (mergeRuns runs) := fun x =>
    hp.mem_iff.trans (sortDiags_perm _).mem_iff.symm
  have ok1 : EqOK s := eqOK_of_caseConsistent hc (fun x hx => hp.mem_iff.mp hx)
  have ok2 : EqOK (sortDiags (mergeRuns runs)) :=
    eqOK_of_caseConsistent hc (fun x hx => (sortDiags_perm _).mem_iff.mp hx)
  have pw := printCore_keys_pairwiseG dlt hd lt hlt hs
  have c2 : Canon (output runs) := printCore_canon (sortDiags_sorted _)
  have keys : ∀ k, k ∈ okeys (obs (printCore s)) ↔ k ∈ okeys (output runs) := by
    intro k
    unfold output
    rw [printCore_keys ok1, printCore_keys ok2]
    constructor <;> (rintro ⟨x, hx, h⟩; exact ⟨x, by first | exact (hm x).mp hx | exact (hm x).mpr hx, h⟩)
  have pairs : ∀ k n, opair (obs (printCore s)) k n ↔ opair (output runs) k n := by
    intro k n
    unfold output
    rw [printCore_pairs ok1, printCore_pairs ok2]
    constructor <;> (rintro ⟨x, hx, h⟩; exact ⟨x, by first | exact (hm x).mp hx | exact (hm x).mpr hx, h⟩)
  refine ⟨pw, ?_, ?_⟩
  · exact List.Pairwise.imp (fun {a b} (h : dlt a b) (e : a = b) => hd.irrefl a (by rw [← e] at h; exact h)) pw
  · intro k ns
    constructor
    · intro h
      have hk : k ∈ okeys (output runs) := (keys k).mp (List.mem_map.mpr ⟨(k, ns), h, rfl⟩)
      rcases List.mem_map.mp hk with ⟨⟨k', ns'⟩, hm', hk'⟩
      simp only at hk'; subst hk'
      have : ns = ns' := by
        apply eq_of_pairwise_of_mem_iff sto_sLt.irrefl sto_sLt.trans _ _
          (printCore_names_sorted s _ h) (c2.names _ hm')
        intro n
        constructor
        · intro hn
          rcases (pairs k' n).mp ⟨ns, h, hn⟩ with ⟨ms, hms, hn'⟩
          rw [canon_unique_entry c2.keys hm' hms]; exact hn'
        · intro hn
          rcases (pairs k' n).mpr ⟨ns', hm', hn⟩ with ⟨ms, hms, hn'⟩
          rw [unique_entry_of_pairwise hd.irrefl pw h hms]; exact hn'
      rw [this]; exact hm'
    · intro h
      have hk : k ∈ okeys (obs (printCore s)) := (keys k).mpr (List.mem_map.mpr ⟨(k, ns), h, rfl⟩)
      rcases List.mem_map.mp hk with ⟨⟨k', ns'⟩, hm', hk'⟩
      simp only at hk'; subst hk'
      have : ns = ns' := by
        apply eq_of_pairwise_of_mem_iff sto_sLt.irrefl sto_sLt.trans _ _
          (c2.names _ h) (printCore_names_sorted s _ hm')
        intro n
        constructor
        · intro hn
          rcases (pairs k' n).mpr ⟨ns, h, hn⟩ with ⟨ms, hms, hn'⟩
          rw [unique_entry_of_pairwise hd.irrefl pw hm' hms]; exact hn'
        · intro hn
          rcases (pairs k' n).mp ⟨ns', hm', hn⟩ with ⟨ms, hms, hn'⟩
          rw [canon_unique_entry c2.keys h hms]; exact hn'
      rw [this]; exact hm'

/-- The same for a comparator given by a field order. -/
theorem out_desc_first_fields (fs : List Field) (hfs : DescFirst fs = true)
    (runs : List Run) (hc : CaseConsistent runs) (s : List Diag)
    (hp : s.Perm (mergeRuns runs)) (hs : s.Pairwise (fun a b => lessG fs b a = false)) :
    (okeys (obs (printCore s))).Nodup ∧ ∀ k ns, (k, ns) ∈ obs (printCore s) ↔ (k, ns) ∈ output runs := by
  obtain ⟨dlt, hd, hlt⟩ := lessG_desc_first fs hfs
  have hs' : SortedBy (fun a b => lessG fs a b = true) s :=
    List.Pairwise.imp (fun {a b} (h : lessG fs b a = false) => by simp [h]) hs
  exact (out_any_desc_first_order dlt hd _ hlt runs hc s hp hs').2

/-- The field order extracted from the `less` closure in the source on this run compares
the whole descriptor before the build name (or severity / strategy). -/
theorem source_order_desc_first : DescFirst Generated.lessFields = true := by decide

/-- Hence: sorting with the comparator of the source and de-duplicating prints each kept
problem once, with the build names the model computes. -/
theorem out_source_order (runs : List Run) (hc : CaseConsistent runs) (s : List Diag)
    (hp : s.Perm (mergeRuns runs)) (hs : s.Pairwise (fun a b => lessG Generated.lessFields b a = false)) :
    (okeys (obs (printCore s))).Nodup ∧ ∀ k ns, (k, ns) ∈ obs (printCore s) ↔ (k, ns) ∈ output runs :=
  out_desc_first_fields _ source_order_desc_first runs hc s hp hs

-- non-vacuity: a field order different from the model's (End before the message, offsets
-- first among the End fields, severity before the build name) is descriptor-first, and a
-- list sorted for it prints the lines of `output exRuns`; the pre-fix order is not
example : DescFirst [.posFile, .posLine, .posCol, .endOff, .endFile, .endLine, .endCol, .msg, .posOff, .cat, .sev, .build] = true ∧
    DescFirst [.posFile, .posLine, .posCol, .msg, .build, .cat] = false ∧ DescFirst modelFields = true := by decide

example : ∀ k ns, (k, ns) ∈ obs (printCore [exD 2 "SA1000" 0 "linux", exD 2 "SA1000" 0 "windows",
    exD 3 "U1000" 1 "linux", exD 3 "U1000" 1 "windows"]) ↔ (k, ns) ∈ output exRuns :=
  (out_source_order exRuns exRuns_cc _ (by decide) (by decide)).2

-- non-vacuity of the two general statements: the model's own comparator with `descLt`, and a
-- field order that differs from the model's, on a list sorted for it
example : (okeys (obs (printCore (sortDiags (mergeRuns exRuns))))).Nodup :=
  (out_any_desc_first_order descLt sto_descLt (fun a b => less a b = true)
    (fun a b h => (less_iff_kLt a b).mpr (Or.inl h)) exRuns exRuns_cc _ (sortDiags_perm _)
    (List.Pairwise.imp (fun {a b} (h : less b a = false) => by simp [h]) (sortDiags_sorted _))).2.1

example : (okeys (obs (printCore [exD 2 "SA1000" 0 "linux", exD 2 "SA1000" 0 "windows",
    exD 3 "U1000" 1 "linux", exD 3 "U1000" 1 "windows"]))).Nodup :=
  (out_desc_first_fields [.posFile, .posLine, .posCol, .endOff, .endFile, .endLine, .endCol, .msg, .posOff, .cat, .sev, .build]
    (by decide) exRuns exRuns_cc _ (by decide) (by decide)).1

/-! ### `-f binary`: the merge key does not depend on the checkout location or on offsets -/

/-- Two `-f binary` runs over checkouts of the same code at different places (and with
different newline conventions, hence different byte offsets), started from the same
place inside the checkout, write the same run: equal checked files, equal diagnostics,
hence equal merge keys. -/
theorem binary_location_offset_independent (reg : Registry) (name : String)
    (root root' : List String) (cwd cwd' : String) (hc : RelocCwd root root' cwd cwd')
    (raw raw' : RawResult) (h : SameRawResult root root' raw raw') :
    binOut cwd (lintRun reg name raw) = binOut cwd' (lintRun reg name raw') ∧
    binaryRun reg cwd name raw = binaryRun reg cwd' name raw' := by
  have := binOut_reloc hc reg name h
  exact ⟨this, by simp only [binaryRun, this]⟩

/-- no byte offset survives `-f binary` -/
theorem binary_offsets_cleared (reg : Registry) (cwd name : String) (raw : RawResult) :
    ∀ d ∈ (binaryRun reg cwd name raw).diags, d.desc.pos.off = 0 ∧ d.desc.end_.off = 0 := by
  intro d hd
  have := mem_runFromLintResult hd
  simp only [binOut, List.mem_map] at this
  rcases this with ⟨x, _, rfl⟩
  exact binDiag_off cwd x

def exRawUnix : RawResult := ⟨["/home/ci/src/a.go"],
  [⟨⟨⟨"/home/ci/src/a.go", 61, 5, 9⟩, ⟨"/home/ci/src/a.go", 67, 5, 15⟩, "SA4000", "m"⟩, 0, false⟩,
   ⟨⟨⟨"/home/ci/src/a.go", 200, 14, 6⟩, ⟨"", 0, 0, 0⟩, "U1000", "func unused is unused"⟩, 0, true⟩]⟩
def exRawWin : RawResult := ⟨["/c/work/x/src/a.go"],
  [⟨⟨⟨"/c/work/x/src/a.go", 65, 5, 9⟩, ⟨"/c/work/x/src/a.go", 71, 5, 15⟩, "SA4000", "m"⟩, 0, false⟩,
   ⟨⟨⟨"/c/work/x/src/a.go", 213, 14, 6⟩, ⟨"", 0, 0, 0⟩, "U1000", "func unused is unused"⟩, 0, true⟩]⟩

-- non-vacuity: an LF checkout under /home/ci and a CRLF checkout under /c/work/x
example : binaryRun [("SA4000", 0)] "/home/ci/src" "b" exRawUnix = binaryRun [("SA4000", 0)] "/c/work/x/src" "b" exRawWin := by
  refine (binary_location_offset_independent [("SA4000", 0)] "b" ["home", "ci"] ["c", "work", "x"]
    "/home/ci/src" "/c/work/x/src" ⟨by decide, by decide, ⟨["src"], by decide, by decide⟩⟩ exRawUnix exRawWin ?_).2
  have pA : RelocPath ["home", "ci"] ["c", "work", "x"] "/home/ci/src/a.go" "/c/work/x/src/a.go" :=
    Or.inr ⟨by decide, by decide, ["src", "a.go"], by decide, by decide⟩
  have pE : RelocPath ["home", "ci"] ["c", "work", "x"] "" "" := Or.inl ⟨by decide, rfl⟩
  exact ⟨All2.cons pA All2.nil,
    All2.cons ⟨pA, rfl, rfl, pA, rfl, rfl, rfl, rfl, rfl, rfl⟩
      (All2.cons ⟨pA, rfl, rfl, pE, rfl, rfl, rfl, rfl, rfl, rfl⟩ All2.nil)⟩

example : (binaryRun [("SA4000", 0)] "/home/ci/src" "b" exRawUnix).diags.map (fun d => d.desc.pos.file) = ["a.go", "a.go"] := by decide

example : ∀ d ∈ (binaryRun [("SA4000", 0)] "/c/work/x/src" "b" exRawWin).diags, d.desc.pos.off = 0 ∧ d.desc.end_.off = 0 :=
  binary_offsets_cleared _ _ _ exRawWin
example : (binaryRun [("SA4000", 0)] "/c/work/x/src" "b" exRawWin).diags.length = 2 := by decide

/-- one `-f binary` invocation: working directory, build name, findings -/
abbrev BinInv := String × String × RawResult

/-- The result of `-merge` over runs from relocated / re-encoded checkouts is the same. -/
theorem merge_location_independent (reg : Registry) (xs ys : List BinInv)
    (h : All2 (fun (x y : BinInv) => x.2.1 = y.2.1 ∧ ∃ root root', RelocCwd root root' x.1 y.1 ∧
      SameRawResult root root' x.2.2 y.2.2) xs ys) :
    output (xs.map fun x => binaryRun reg x.1 x.2.1 x.2.2) = output (ys.map fun y => binaryRun reg y.1 y.2.1 y.2.2) := by
  have : (xs.map fun x => binaryRun reg x.1 x.2.1 x.2.2) = (ys.map fun y => binaryRun reg y.1 y.2.1 y.2.2) :=
    map_eq_of_all2 (fun x y hxy => by
      obtain ⟨hn, root, root', hcw, hr⟩ := hxy
      rw [hn]
      exact (binary_location_offset_independent reg y.2.1 root root' x.1 y.1 hcw x.2.2 y.2.2 hr).2) h
  rw [this]

example : output ([("/home/ci/src", "b", exRawUnix)].map fun x => binaryRun [("SA4000", 0)] x.1 x.2.1 x.2.2) =
    output ([("/c/work/x/src", "b", exRawWin)].map fun y => binaryRun [("SA4000", 0)] y.1 y.2.1 y.2.2) := by
  apply merge_location_independent
  refine All2.cons ⟨rfl, ["home", "ci"], ["c", "work", "x"], ⟨by decide, by decide, ⟨["src"], by decide, by decide⟩⟩, ?_⟩ All2.nil
  have pA : RelocPath ["home", "ci"] ["c", "work", "x"] "/home/ci/src/a.go" "/c/work/x/src/a.go" :=
    Or.inr ⟨by decide, by decide, ["src", "a.go"], by decide, by decide⟩
  have pE : RelocPath ["home", "ci"] ["c", "work", "x"] "" "" := Or.inl ⟨by decide, rfl⟩
  exact ⟨All2.cons pA All2.nil,
    All2.cons ⟨pA, rfl, rfl, pA, rfl, rfl, rfl, rfl, rfl, rfl⟩
      (All2.cons ⟨pA, rfl, rfl, pE, rfl, rfl, rfl, rfl, rfl, rfl⟩ All2.nil)⟩

/-! ### the `-matrix` line syntax -/

/-- the lines of stdin that count: split at '\n', each piece trimmed (`strings.TrimSpace`,
so a '\r' before the newline goes too), blank pieces dropped -/
def matrixLines (stdin : List Char) : List (List Char) := trimmedLines (splitC '\n' stdin)

/-- `parseBuildConfigs` is a function of these lines only, and it succeeds with `cfgs`
exactly when every one of them parses; `cfgs` then is, in order, one configuration per
non-blank line: the parse of that line.  No line is dropped or duplicated, whatever the
newline conventions. -/
theorem matrix_lines (stdin : List Char) :
    parseBuildConfigs stdin = parseLines 0 (matrixLines stdin) ∧
    ∀ cfgs, parseBuildConfigs stdin = .ok cfgs ↔
      All2 (fun l c => parseBuildConfig l = .ok c) (matrixLines stdin) cfgs := by
  have h : parseBuildConfigs stdin = parseLines 0 (matrixLines stdin) := pbcLoop_eq_parseLines _ 0
  exact ⟨h, fun cfgs => by rw [h]; exact parseLines_ok_iff _ 0 cfgs⟩

theorem matrix_line_count (stdin : List Char) (cfgs : List BuildConfig)
    (h : parseBuildConfigs stdin = .ok cfgs) : cfgs.length = (matrixLines stdin).length :=
  (((matrix_lines stdin).2 cfgs).mp h).length_eq.symm

/-- a final newline (or its absence) makes no difference — the defect fixed in 49a863d -/
theorem matrix_trailing_newline (stdin : List Char) :
    parseBuildConfigs (stdin ++ ['\n']) = parseBuildConfigs stdin := by
  unfold parseBuildConfigs
  rw [splitC_append_sep]
  exact pbcLoop_append_blank [] trimSpace_nil _ 0

/-- blank lines anywhere make no difference -/
theorem matrix_blank_lines (stdin stdin' : List Char) (h : matrixLines stdin = matrixLines stdin') :
    parseBuildConfigs stdin = parseBuildConfigs stdin' := by
  rw [(matrix_lines stdin).1, (matrix_lines stdin').1, h]

/-- `name:` names a configuration without flags; `name: -flag` one with that flag -/
theorem matrix_line_meaning (name arg : List Char) (hn : ∀ c ∈ name, isNameC c = true)
    (ha : ∀ c ∈ arg, isSpaceC c = false ∧ c ≠ '"') :
    parseBuildConfig (name ++ [':']) = .ok ⟨String.ofList name, [], []⟩ ∧
    parseBuildConfig (name ++ ':' :: ' ' :: '-' :: arg) = .ok ⟨String.ofList name, [], [String.ofList ('-' :: arg)]⟩ :=
  ⟨parseBuildConfig_bare name hn, parseBuildConfig_flag name arg hn ha⟩

def exStdin : List Char := "foo: -tags=foo\r\n\n  nofoo:  ".toList

theorem exStdin_parse : parseBuildConfigs exStdin = .ok [⟨"foo", [], ["-tags=foo"]⟩, ⟨"nofoo", [], []⟩] := by decide

example : All2 (fun l c => parseBuildConfig l = .ok c) (matrixLines exStdin)
    [⟨"foo", [], ["-tags=foo"]⟩, ⟨"nofoo", [], []⟩] := ((matrix_lines exStdin).2 _).mp exStdin_parse
example : matrixLines exStdin = ["foo: -tags=foo".toList, "nofoo:".toList] := by decide

example : (matrixLines exStdin).length = 2 ∧ parseBuildConfigs (exStdin ++ ['\n']) = parseBuildConfigs exStdin :=
  ⟨by decide, matrix_trailing_newline exStdin⟩
example : parseBuildConfigs exStdin = parseBuildConfigs "foo: -tags=foo\nnofoo:\n".toList :=
  matrix_blank_lines _ _ (by decide)
example : ([⟨"foo", [], ["-tags=foo"]⟩, ⟨"nofoo", [], []⟩] : List BuildConfig).length = (matrixLines exStdin).length :=
  matrix_line_count exStdin _ exStdin_parse
example : parseBuildConfig "foo: -tags=foo".toList = .ok ⟨"foo", [], ["-tags=foo"]⟩ :=
  (matrix_line_meaning "foo".toList "tags=foo".toList (by decide) (by decide)).2
example : parseBuildConfigs "ok:\nbad name: -x\n".toList = .error (2, .invalidName) ∧
    parseBuildConfigs "a: \"b".toList = .error (1, .unterminated) ∧
    parseBuildConfigs "x".toList = .error (1, .missingName) := by decide

/-! ### the matrix clause: `-matrix` = merging one run per build configuration -/

/-- any/all in terms of the build configurations: a problem of a check documented 'any'
is printed iff some configuration reports it; a problem of a check documented 'all' (or
U1000) iff some configuration reports it and every configuration that checked its file
reports it.  Hypotheses are about the runner only (`RawOK`). -/
theorem matrix_any_all (reg : Registry) (lintOf : List String → List String → RawResult)
    (cfgs : List BuildConfig) (hok : RawOK (matrixRaws lintOf cfgs)) (k : Desc) :
    (docStrategy reg k.cat = 0 →
      (k ∈ okeys (output (matrixRuns reg lintOf cfgs)) ↔ ∃ c ∈ cfgs, reports lintOf c k)) ∧
    (docStrategy reg k.cat = 1 →
      (k ∈ okeys (output (matrixRuns reg lintOf cfgs)) ↔
        (∃ c ∈ cfgs, reports lintOf c k) ∧
        ∀ c ∈ cfgs, k.pos.file ∈ (cfgRaw lintOf c).checked → reports lintOf c k)) := by
  have hc := matrix_caseConsistent reg lintOf cfgs hok
  have hmi : ∀ r ∈ matrixRuns reg lintOf cfgs, ∀ d ∈ r.diags, d.desc = k → d.mergeIf = docStrategy reg k.cat := by
    intro r hr d hd hk
    rw [← hk]; exact matrix_mergeIf reg lintOf cfgs hok hr hd
  constructor
  · intro h0
    rw [kept_iff_strategies _ hc, ← matrix_reported_iff reg]
    constructor
    · rintro (⟨r, hr, d, hd, hk, _⟩ | ⟨⟨r, hr, d, hd, hk, h1⟩, _⟩)
      · exact ⟨r, hr, d, hd, hk⟩
      · have := hmi r hr d hd hk; rw [h0] at this; omega
    · rintro ⟨r, hr, d, hd, hk⟩
      exact Or.inl ⟨r, hr, d, hd, hk, by rw [hmi r hr d hd hk, h0]⟩
  · intro h1
    rw [kept_iff_strategies _ hc, ← matrix_reported_iff reg, ← matrix_all_checked_iff reg]
    constructor
    · rintro (⟨r, hr, d, hd, hk, h0⟩ | ⟨⟨r, hr, d, hd, hk, _⟩, hall⟩)
      · have := hmi r hr d hd hk; rw [h1] at this; omega
      · exact ⟨⟨r, hr, d, hd, hk⟩, hall⟩
    · rintro ⟨⟨r, hr, d, hd, hk⟩, hall⟩
      exact Or.inr ⟨⟨r, hr, d, hd, hk, by rw [hmi r hr d hd hk, h1]⟩, hall⟩

/-- every printed problem is annotated with exactly the names of the configurations
that reported it -/
theorem matrix_builds (reg : Registry) (lintOf : List String → List String → RawResult)
    (cfgs : List BuildConfig) (hok : RawOK (matrixRaws lintOf cfgs)) (k : Desc) (ns : List String)
    (h : (k, ns) ∈ output (matrixRuns reg lintOf cfgs)) (n : String) :
    n ∈ ns ↔ ∃ c ∈ cfgs, c.name = n ∧ reports lintOf c k := by
  have hc := matrix_caseConsistent reg lintOf cfgs hok
  have hu : UniformStrategy (matrixRuns reg lintOf cfgs) := by
    intro r hr d hd r' hr' d' hd' he
    rw [matrix_mergeIf reg lintOf cfgs hok hr hd, matrix_mergeIf reg lintOf cfgs hok hr' hd', he]
  rw [builds_exact_uniform _ hc hu k ns h n]
  constructor
  · rintro ⟨r, hr, d, hd, hk, hb⟩
    rcases (mem_matrixRuns _ _ _ _).mp hr with ⟨c, hcm, rfl⟩
    rcases mem_cfgRun hd with ⟨rd, hrd, rfl⟩
    exact ⟨c, hcm, hb, rd, hrd, hk⟩
  · rintro ⟨c, hcm, hn, hrep⟩
    rcases (Run.has_iff _ _).mp ((has_cfgRun reg lintOf c k).mpr hrep) with ⟨d, hd, hk⟩
    refine ⟨cfgRun reg lintOf c, (mem_matrixRuns _ _ _ _).mpr ⟨c, hcm, rfl⟩, d, hd, hk, ?_⟩
    rcases mem_cfgRun hd with ⟨rd, _, rfl⟩
    exact hn

/-- the order of the matrix lines and repeated lines make no difference -/
theorem matrix_order_repetition (reg : Registry) (lintOf : List String → List String → RawResult)
    (cfgs cfgs' : List BuildConfig) (hok : RawOK (matrixRaws lintOf cfgs))
    (h : ∀ c, c ∈ cfgs ↔ c ∈ cfgs') :
    output (matrixRuns reg lintOf cfgs) = output (matrixRuns reg lintOf cfgs') := by
  apply output_congr _ _ (matrix_caseConsistent reg lintOf cfgs hok)
  intro r
  rw [mem_matrixRuns, mem_matrixRuns]
  constructor
  · rintro ⟨c, hc, e⟩; exact ⟨c, (h c).mp hc, e⟩
  · rintro ⟨c, hc, e⟩; exact ⟨c, (h c).mpr hc, e⟩

/-- and neither does a final newline on stdin -/
theorem matrix_newline (reg : Registry) (lintOf : List String → List String → RawResult)
    (stdin : List Char) : matrixOutput reg lintOf (stdin ++ ['\n']) = matrixOutput reg lintOf stdin := by
  simp only [matrixOutput, matrix_trailing_newline]

/-! non-vacuity for the matrix clause: SA4003 ('all') fires in the shared file a.go only
under -tags=foo, SA4000 ('any') under both, U1000 under both -/
def exReg : Registry := [("SA4000", 0), ("SA4003", 1), ("U1000", 0)]
def exRD (line : Int) (cat : String) (u : Bool) : RawDiag :=
  ⟨⟨⟨"/m/a.go", 0, line, 1⟩, ⟨"", 0, 0, 0⟩, cat, "m"⟩, 0, u⟩
def exLint : List String → List String → RawResult
  | _, ["-tags=foo"] => ⟨["/m/a.go", "/m/t_foo.go"], [exRD 4 "SA4003" false, exRD 9 "SA4000" false, exRD 12 "U1000" true]⟩
  | _, _ => ⟨["/m/a.go", "/m/t_nofoo.go"], [exRD 9 "SA4000" false, exRD 12 "U1000" true]⟩
def exCfgs : List BuildConfig := [⟨"foo", [], ["-tags=foo"]⟩, ⟨"nofoo", [], []⟩]

theorem exRawOK : RawOK (matrixRaws exLint exCfgs) := by
  constructor
  · intro raw hraw d hd
    simp [matrixRaws, exCfgs, cfgRaw, exLint] at hraw
    rcases hraw with rfl | rfl <;> simp at hd <;> rcases hd with rfl | rfl | rfl <;> decide
  · intro raw hraw d hd raw' hraw' d' hd'
    simp [matrixRaws, exCfgs, cfgRaw, exLint] at hraw hraw'
    rcases hraw with rfl | rfl <;> rcases hraw' with rfl | rfl <;> simp at hd hd' <;>
      rcases hd with rfl | rfl | rfl <;> rcases hd' with rfl | rfl | rfl <;> decide

theorem exMatrix_output : matrixOutput exReg exLint exStdin =
    .ok [((exRD 9 "SA4000" false).desc, ["foo", "nofoo"]), ((exRD 12 "U1000" true).desc, ["foo", "nofoo"])] := by decide

example : (exRD 4 "SA4003" false).desc ∉ okeys (output (matrixRuns exReg exLint exCfgs)) ∧
    (exRD 9 "SA4000" false).desc ∈ okeys (output (matrixRuns exReg exLint exCfgs)) := by
  constructor
  · rw [((matrix_any_all exReg exLint exCfgs exRawOK _).2 (by decide))]
    intro h
    have := h.2 ⟨"nofoo", [], []⟩ (by simp [exCfgs]) (by decide)
    revert this; unfold reports; decide
  · rw [((matrix_any_all exReg exLint exCfgs exRawOK _).1 (by decide))]
    exact ⟨⟨"nofoo", [], []⟩, by simp [exCfgs], by unfold reports; decide⟩

example : "nofoo" ∈ ["foo", "nofoo"] ↔ ∃ c ∈ exCfgs, c.name = "nofoo" ∧ reports exLint c (exRD 12 "U1000" true).desc :=
  matrix_builds exReg exLint exCfgs exRawOK _ _ (by decide) "nofoo"

example : output (matrixRuns exReg exLint exCfgs) = output (matrixRuns exReg exLint (exCfgs.reverse ++ exCfgs)) :=
  matrix_order_repetition exReg exLint _ _ exRawOK (by intro c; simp [exCfgs]; grind)

example : matrixOutput exReg exLint (exStdin ++ ['\n']) = matrixOutput exReg exLint exStdin :=
  matrix_newline exReg exLint exStdin

end Verif.C12
