import Verif.C12.Lemmas
import Verif.C12.Pipeline
/-
C12 — lemmas about the pipeline around mergeRuns: relative paths, `-f binary`
normalisation, the merge strategy assignment of linter.lint, the matrix line parser.
-/
namespace Verif.C12

/-! ### filepath.Rel on components -/

theorem relComps_prefix (root c t : List String) : relComps (root ++ c) (root ++ t) = relComps c t := by
  induction root with
  | nil => rfl
  | cons r rs ih => simp [relComps, ih]

/-- `p'` is the path of the same file as `p` in a checkout rooted at `root'` instead of
`root` (file names that are not absolute — e.g. the empty End of U1000 — are not moved) -/
def RelocPath (root root' : List String) (p p' : String) : Prop :=
  (isAbs p = false ∧ p' = p) ∨
  (isAbs p = true ∧ isAbs p' = true ∧ ∃ t, comps p = root ++ t ∧ comps p' = root' ++ t)

/-- the working directories are the same place inside the two checkouts -/
structure RelocCwd (root root' : List String) (cwd cwd' : String) : Prop where
  abs : isAbs cwd = true
  abs' : isAbs cwd' = true
  same : ∃ c, comps cwd = root ++ c ∧ comps cwd' = root' ++ c

theorem relPath_reloc {root root' : List String} {cwd cwd' : String} (hc : RelocCwd root root' cwd cwd')
    {p p' : String} (h : RelocPath root root' p p') : relPath cwd p = relPath cwd' p' := by
  rcases h with ⟨hp, rfl⟩ | ⟨hp, hp', t, ht, ht'⟩
  · simp [relPath, hp]
  · obtain ⟨c, hcw, hcw'⟩ := hc.same
    simp only [relPath, hp, hp', hc.abs, hc.abs', Bool.and_self, if_true, ht, ht', hcw, hcw',
      relComps_prefix]

/-! ### `-f binary` output does not depend on the checkout location or on byte offsets -/

/-- the same problem found in two checkouts of the same code: same line/column/message/
check, file names relocated, byte offsets arbitrary (LF vs CRLF checkouts) -/
structure SameRaw (root root' : List String) (d d' : RawDiag) : Prop where
  file : RelocPath root root' d.desc.pos.file d'.desc.pos.file
  line : d.desc.pos.line = d'.desc.pos.line
  col : d.desc.pos.col = d'.desc.pos.col
  efile : RelocPath root root' d.desc.end_.file d'.desc.end_.file
  eline : d.desc.end_.line = d'.desc.end_.line
  ecol : d.desc.end_.col = d'.desc.end_.col
  cat : d.desc.cat = d'.desc.cat
  msg : d.desc.msg = d'.desc.msg
  sev : d.sev = d'.sev
  src : d.fromUnused = d'.fromUnused

theorem binDiag_reloc {root root' : List String} {cwd cwd' : String} (hc : RelocCwd root root' cwd cwd')
    (reg : Registry) (name : String) {d d' : RawDiag} (h : SameRaw root root' d d') :
    binDiag cwd (lintDiag reg name d) = binDiag cwd' (lintDiag reg name d') := by
  rcases d with ⟨⟨⟨f, o, l, c⟩, ⟨ef, eo, el, ec⟩, cat, msg⟩, sev, src⟩
  rcases d' with ⟨⟨⟨f', o', l', c'⟩, ⟨ef', eo', el', ec'⟩, cat', msg'⟩, sev', src'⟩
  have h1 := relPath_reloc hc h.file
  have h2 := relPath_reloc hc h.efile
  have h3 := h.line; have h4 := h.col; have h5 := h.eline; have h6 := h.ecol
  have h7 := h.cat; have h8 := h.msg; have h9 := h.sev; have h10 := h.src
  simp only at h1 h2 h3 h4 h5 h6 h7 h8 h9 h10
  simp [binDiag, binPos, lintDiag, h1, h2, h3, h4, h5, h6, h7, h8, h9, h10]

/-- the two lists correspond element by element -/
inductive All2 {α β : Type} (R : α → β → Prop) : List α → List β → Prop
  | nil : All2 R [] []
  | cons {a : α} {b : β} {l : List α} {l' : List β} : R a b → All2 R l l' → All2 R (a :: l) (b :: l')

structure SameRawResult (root root' : List String) (r r' : RawResult) : Prop where
  checked : All2 (RelocPath root root') r.checked r'.checked
  diags : All2 (SameRaw root root') r.diags r'.diags

theorem map_eq_of_all2 {α β : Type} {R : α → α → Prop} {f g : α → β}
    (h : ∀ a a', R a a' → f a = g a') : ∀ {l l' : List α}, All2 R l l' → l.map f = l'.map g := by
  intro l l' hl
  induction hl with
  | nil => rfl
  | cons hab _ ih => simp [h _ _ hab, ih]

theorem binOut_reloc {root root' : List String} {cwd cwd' : String} (hc : RelocCwd root root' cwd cwd')
    (reg : Registry) (name : String) {r r' : RawResult} (h : SameRawResult root root' r r') :
    binOut cwd (lintRun reg name r) = binOut cwd' (lintRun reg name r') := by
  simp only [binOut, lintRun, List.map_map]
  congr 1
  · exact map_eq_of_all2 (fun a a' haa => relPath_reloc hc haa) h.checked
  · exact map_eq_of_all2 (fun a a' haa => by
      simp only [Function.comp]; exact binDiag_reloc hc reg name haa) h.diags

theorem binDiag_off (cwd : String) (d : Diag) :
    (binDiag cwd d).desc.pos.off = 0 ∧ (binDiag cwd d).desc.end_.off = 0 := by
  simp [binDiag, binPos]

/-! ### runFromLintResult: members and keys -/

theorem mem_mapSet (m : List Diag) (d x : Diag) (h : x ∈ mapSet m d) : x ∈ m ∨ x = d := by
  induction m with
  | nil => simp [mapSet] at h; exact Or.inr h
  | cons y ys ih =>
    unfold mapSet at h
    split at h
    · rcases List.mem_cons.mp h with e | e
      · exact Or.inr e
      · exact Or.inl (List.mem_cons_of_mem _ e)
    · rcases List.mem_cons.mp h with e | e
      · exact Or.inl (by simp [e])
      · rcases ih e with t | t
        · exact Or.inl (List.mem_cons_of_mem _ t)
        · exact Or.inr t

theorem mem_foldl_mapSet (ds : List Diag) : ∀ (m : List Diag) (x : Diag),
    x ∈ ds.foldl mapSet m → x ∈ m ∨ x ∈ ds := by
  induction ds with
  | nil => intro m x h; exact Or.inl h
  | cons d ds ih =>
    intro m x h
    rcases ih (mapSet m d) x h with t | t
    · rcases mem_mapSet m d x t with u | u
      · exact Or.inl u
      · exact Or.inr (by simp [u])
    · exact Or.inr (List.mem_cons_of_mem _ t)

theorem mem_runFromLintResult {res : LintResult} {x : Diag} (h : x ∈ (runFromLintResult res).diags) :
    x ∈ res.diags := by
  rcases mem_foldl_mapSet res.diags [] x h with t | t
  · cases t
  · exact t

theorem has_mapSet (m : List Diag) (d : Diag) (k : Desc) :
    (mapSet m d).any (fun x => x.desc = k) = (m.any (fun x => x.desc = k) || decide (d.desc = k)) := by
  induction m with
  | nil => simp [mapSet]
  | cons y ys ih =>
    unfold mapSet
    split
    · rename_i e
      by_cases hk : d.desc = k
      · simp [hk]
      · have : ¬ y.desc = k := fun e' => hk (e ▸ e')
        simp [hk, this]
    · simp only [List.any_cons, ih]
      cases decide (y.desc = k) <;> simp

theorem has_foldl_mapSet (ds : List Diag) : ∀ (m : List Diag) (k : Desc),
    (ds.foldl mapSet m).any (fun x => x.desc = k) =
      (m.any (fun x => x.desc = k) || ds.any (fun x => x.desc = k)) := by
  induction ds with
  | nil => intro m k; simp
  | cons d ds ih =>
    intro m k
    rw [List.foldl_cons, ih, has_mapSet, List.any_cons, Bool.or_assoc]

/-- a run has a descriptor iff the lint result contains a diagnostic with it -/
theorem has_runFromLintResult (res : LintResult) (k : Desc) :
    (runFromLintResult res).has k = true ↔ ∃ d ∈ res.diags, d.desc = k := by
  simp only [Run.has, runFromLintResult, has_foldl_mapSet]
  simp

/-! ### linter.lint: strategy as a function of the check -/

/-- the strategy of the documentation; U1000 problems are created with MergeIfAll by
linter.lint itself -/
def docStrategy (reg : Registry) (cat : String) : Int :=
  if cat = "U1000" then 1 else strategyOf reg cat

/-- world hypotheses on what the runner and `unused` hand to linter.lint (over all runs
that are merged): category U1000 comes from the U1000 loop and only from it; check names
are spelled in one letter case -/
structure RawOK (raws : List RawResult) : Prop where
  src : ∀ raw ∈ raws, ∀ d ∈ raw.diags, (d.fromUnused = true ↔ d.desc.cat = "U1000")
  cats : ∀ raw ∈ raws, ∀ d ∈ raw.diags, ∀ raw' ∈ raws, ∀ d' ∈ raw'.diags,
    foldCase d.desc.cat = foldCase d'.desc.cat → d.desc.cat = d'.desc.cat

theorem lintDiag_mergeIf (reg : Registry) (name : String) (d : RawDiag)
    (h : d.fromUnused = true ↔ d.desc.cat = "U1000") :
    (lintDiag reg name d).mergeIf = docStrategy reg d.desc.cat := by
  simp only [lintDiag, docStrategy]
  by_cases hu : d.fromUnused = true
  · simp [hu, h.mp hu]
  · have : ¬ d.desc.cat = "U1000" := fun e => hu (h.mpr e)
    simp [hu, this]

end Verif.C12
