import Verif.C02.Driver
def main : IO Unit := Verif.Proto.runLines Verif.C02.step
