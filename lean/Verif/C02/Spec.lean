/-
C02 — the declarative specification `WF : FnDump → Prop`.

`WF f` says, about the dump `f` of one built function (see Model.lean for what a dump is):

1. `shape`      bookkeeping analyses index by: there is an entry block; `Blocks[i].Index = i`;
                no block is empty; every Preds/Succs entry is a block of this function;
                `instr.Block()` is the block that contains the instruction; `Recover` is one
                of the blocks; instruction `ID()`s are pairwise distinct.
2. `cfg_inverse` Preds and Succs are exact mutual inverses *as multisets of edges*.
3. `terminators` every block ends in exactly one terminator (Jump, If, Return, Panic,
                Unreachable, ConstantSwitch) whose arity is the length of the successor
                list (Jump 1, If 2, Return/Panic/Unreachable 0, ConstantSwitch = number of
                cases); no terminator anywhere else in the block.
4. `phis`       φ-nodes lead their block; each has exactly one non-nil operand per
                predecessor; a block with φ-nodes has no duplicate predecessor (otherwise a
                φ-node would carry two operands for one predecessor).
5. `defs_dominate_uses` **strict SSA.** Every non-nil operand is either a non-instruction
                value that exists independently of control flow (Parameter / FreeVar /
                anonymous Function *of this function*, Const, Global, Builtin, named
                Function), or the result of a value-defining instruction that sits in a
                block of this function and
                  – for a non-φ use: earlier in the same block, or in a different block that
                    lies on EVERY control-flow path from the entry to the block of the use;
                  – for operand `k` of a φ-node: in a block that lies on EVERY control-flow
                    path from the entry to predecessor `k` (the end of that predecessor).
                Paths are paths of `f.graph` (Succs plus the virtual edge entry → Recover),
                `Verif.C14.Path`; "lies on every path" is `Verif.C14.DomFrom`, the
                path-quantified definition, not a computed relation.
6. `refs_tracked`, `refs_inverse`  `Referrers()` is defined exactly for value-defining
                instructions, Parameters, FreeVars and anonymous Functions, and for those
                values `i ∈ v.Referrers() ↔ v ∈ i.Operands()` (as relations; go/ir documents
                that the multiplicity of duplicates is not maintained, and lift.go's
                `replace` indeed does not maintain it).
7. `typed`      every instruction satisfies the row of its kind in the typing table
                `TypeRule` (Model.lean).
8. `operands_complete`  for every instruction, what the method `Operands()` returns is, as a
                multiset (nil entries included), exactly what the fields of the instruction's
                struct hold.  Referrer building, renaming during lifting and go/ir's own sanity
                checker all enumerate operands through `Operands()`; an operand the method
                forgets is invisible to all of them (and to clauses 5–7, which are stated over
                `Operands()`), so the two enumerations are dumped independently and compared.
9. `func_ok`    function-level bookkeeping: `Params` are pairwise distinct Parameters of this
                function, every Parameter of this function that occurs as a value is listed,
                and their types are exactly the receiver type (if the signature has one) followed
                by the parameter types of `Signature`; the same for `FreeVars` (distinct
                FreeVars of this function, all listed); `Locals` lists pairwise distinct
                non-heap Allocs of the function's blocks (in naive form an entry may be in no
                block: only lifting compacts the list).
-/
import Verif.C02.Model
namespace Verif.C02
open Verif.C14 (Graph Path DomFrom)

/-- a Preds/Succs entry that names a block of this function -/
def InRange (n : Nat) (e : Option Nat) : Prop :=
  match e with
  | some k => k < n
  | none => False

instance (n : Nat) (e : Option Nat) : Decidable (InRange n e) := by
  unfold InRange; split <;> infer_instance

/-- clause 1 for the `i`-th block -/
def BlockShape (n : Nat) (b : Block) (i : Nat) : Prop :=
  b.index = some i ∧ b.instrs ≠ [] ∧ (∀ e ∈ b.preds, InRange n e) ∧ (∀ e ∈ b.succs, InRange n e) ∧
    ∀ ins ∈ b.instrs, ins.blk = some i

instance (n : Nat) (b : Block) (i : Nat) : Decidable (BlockShape n b i) := by
  unfold BlockShape; infer_instance

structure ShapeOK (f : FnDump) : Prop where
  entry : 0 < f.nblocks
  blocks : ∀ x ∈ f.blocks.zipIdx, BlockShape f.nblocks x.1 x.2
  recover : ∀ r, f.recover = some r → r < f.nblocks
  ids_distinct : (f.flatL.map (·.2.2.irid)).Nodup

/-- all CFG edges `(from, to)` as listed in the Succs lists … -/
def succEdges (f : FnDump) : List (Nat × Nat) :=
  f.blocks.zipIdx.flatMap fun (b, i) => b.succsN.map fun s => (i, s)

/-- … and as listed in the Preds lists -/
def predEdges (f : FnDump) : List (Nat × Nat) :=
  f.blocks.zipIdx.flatMap fun (b, i) => b.predsN.map fun p => (p, i)

/-- clause 3 -/
def TermOK (b : Block) : Prop :=
  match b.instrs.getLast? with
  | none => False
  | some last =>
    isTerminator last.kind = true ∧ termArity last = some b.succs.length ∧
      ∀ i ∈ b.instrs.dropLast, isTerminator i.kind = false

instance (b : Block) : Decidable (TermOK b) := by
  unfold TermOK; split <;> infer_instance

/-- clause 4 -/
def PhisOK (b : Block) : Prop :=
  (∀ i ∈ b.instrs.dropWhile (fun i => i.kind == .Phi), i.kind ≠ .Phi) ∧
  (∀ i ∈ b.instrs, i.kind = .Phi → i.ops.length = b.preds.length ∧ ∀ o ∈ i.ops, o ≠ none) ∧
  ((∃ i ∈ b.instrs, i.kind = .Phi) → b.predsN.Nodup)

instance (b : Block) : Decidable (PhisOK b) := by
  unfold PhisOK; infer_instance

/-- clause 5 for operand slot `k` (holding value `v`) of the instruction `use` at position
`iu` of block `bu`; `D d b` = "block `d` lies on every path from the entry to block `b`". -/
def OperandOK (D : Nat → Nat → Prop) (f : FnDump) (fl : Array (Nat × Nat × Instr))
    (bu iu : Nat) (use : Instr) (k v : Nat) : Prop :=
  if v < fl.size then
    match fl[v]? with
    | none => False
    | some (bd, id, d) =>
      d.ty.isSome = true ∧
      if use.kind = .Phi then
        match (f.blocks[bu]?).bind (fun b => (b.preds[k]?).join) with
        | some p => D bd p
        | none => False
      else (bd = bu ∧ id < iu) ∨ (bd ≠ bu ∧ D bd bu)
  else
    match f.vals[v - fl.size]? with
    | none => False
    | some w => w.kind.legit = true

/-- all (value, user) pairs of the Operands relation, restricted to tracked values -/
def usePairs (f : FnDump) (fl : Array (Nat × Nat × Instr)) : List (Nat × Nat) :=
  f.flatL.zipIdx.flatMap fun (x, u) =>
    ((x.2.2.ops.filterMap id).filter fun v => (refsOf f fl v).isSome).map fun v => (v, u)

/-- all (value, referrer) pairs of the Referrers relation -/
def refPairs (f : FnDump) (fl : Array (Nat × Nat × Instr)) : List (Nat × Nat) :=
  (f.flatL.zipIdx.flatMap fun (x, u) => (x.2.2.refs.getD []).map fun r => (u, r)) ++
  (f.vals.toList.zipIdx.flatMap fun (w, j) => (w.refs.getD []).map fun r => (fl.size + j, r))

/-- clause 6a -/
def RefsTracked (f : FnDump) : Prop :=
  (∀ x ∈ f.flatL, x.2.2.refs.isSome = x.2.2.ty.isSome) ∧
  (∀ w ∈ f.vals.toList, w.kind.legit = true → w.refs.isSome = w.kind.tracked)

/-- kind of the non-instruction value with id `v` -/
def vkindOf (f : FnDump) (fl : Array (Nat × Nat × Instr)) (v : Nat) : Option VKind :=
  if v < fl.size then none else (f.vals[v - fl.size]?).map (·.kind)

/-- clause 9, one list of Parameters / FreeVars: the entries are pairwise distinct values of the
given kind, and every value of that kind of the dump is listed -/
def ListedOK (f : FnDump) (fl : Array (Nat × Nat × Instr)) (k : VKind) (l : List Nat) : Prop :=
  (∀ v ∈ l, vkindOf f fl v = some k) ∧ l.Nodup ∧
    ∀ x ∈ f.vals.toList.zipIdx, x.1.kind = k → (fl.size + x.2) ∈ l

instance (f : FnDump) (fl : Array (Nat × Nat × Instr)) (k : VKind) (l : List Nat) :
    Decidable (ListedOK f fl k l) := by unfold ListedOK; infer_instance

/-- an entry of `Function.Locals`: an Alloc of this function with `Heap = false`.  An entry
that is in no block is tolerated only in naive form: the builder leaves the fused per-iteration
copy of a Go 1.22 loop variable (`forStmtGo122`: "lift() will remove the unused i_next Alloc")
and the Allocs of deleted unreachable blocks in `Locals`, and only lifting compacts the list. -/
def LocalOK (naive : Bool) (fl : Array (Nat × Nat × Instr)) (l : Option Nat) : Prop :=
  match l with
  | some k =>
    match fl[k]? with
    | some x => x.2.2.kind = .Alloc ∧ x.2.2.a = some 0
    | none => False
  | none => naive = true

instance (naive : Bool) (fl : Array (Nat × Nat × Instr)) (l : Option Nat) :
    Decidable (LocalOK naive fl l) := by
  unfold LocalOK; split
  · split <;> infer_instance
  · infer_instance

/-- clause 9 -/
structure FuncOK (f : FnDump) : Prop where
  params : ListedOK f f.flat .param f.params
  params_typed : f.params.map (valTy f f.flat) = f.sigParams.map some
  free_vars : ListedOK f f.flat .freevar f.freeVars
  locals : ∀ l ∈ f.locals, LocalOK f.naive f.flat l
  locals_distinct : (f.locals.filterMap id).Nodup

instance (f : FnDump) : Decidable (FuncOK f) :=
  decidable_of_iff
    (ListedOK f f.flat .param f.params ∧ f.params.map (valTy f f.flat) = f.sigParams.map some ∧
      ListedOK f f.flat .freevar f.freeVars ∧ (∀ l ∈ f.locals, LocalOK f.naive f.flat l) ∧
      (f.locals.filterMap id).Nodup)
    ⟨fun ⟨a, b, c, d, e⟩ => ⟨a, b, c, d, e⟩, fun ⟨a, b, c, d, e⟩ => ⟨a, b, c, d, e⟩⟩

/-- **Well-formed SSA** (the statement of property C02 for one built function). -/
structure WF (f : FnDump) : Prop where
  shape : ShapeOK f
  cfg_inverse : (succEdges f).Perm (predEdges f)
  terminators : ∀ b ∈ f.blocks, TermOK b
  phis : ∀ b ∈ f.blocks, PhisOK b
  defs_dominate_uses : ∀ x ∈ f.flatL, ∀ k v, x.2.2.ops[k]? = some (some v) →
    OperandOK (DomFrom f.graph 0) f f.flat x.1 x.2.1 x.2.2 k v
  refs_tracked : RefsTracked f
  refs_inverse : ∀ p, p ∈ usePairs f f.flat ↔ p ∈ refPairs f f.flat
  typed : ∀ x ∈ f.flatL, TypeRule (f.ctx f.flat) x.2.2
  operands_complete : ∀ x ∈ f.flatL, x.2.2.ops.Perm x.2.2.fops
  func_ok : FuncOK f

end Verif.C02
