/-
C02 — property theorems.

* `wfCheck_sound`   **soundness of the validator**: `wfCheck f = true → WF f` for EVERY dump
                    `f` (any number of blocks / instructions, any CFG).  `WF` (Spec.lean) is
                    the declarative statement of the property for one built function; its
                    dominance clause quantifies over all control-flow paths
                    (`Verif.C14.DomFrom`).
* `def_on_every_path`, `phi_def_on_every_path`   the dominance clause of an accepted dump
                    spelled out with explicit paths.
* `cfg_exact`       Preds/Succs are mutual inverses with multiplicity (count form).
* `refs_exact`      Operands/Referrers are mutual inverses (membership form).
* `closedOK_sound`  the re-check of a candidate "reachable avoiding d" set is sound: a block
                    outside an accepted set has `d` on every path from the entry.
* `msort_perm`, `mem_canonSet`   what the validator relies on about its sorting helpers.

Level of the property: translation validation.  The theorems are applied per dumped
function by running the compiled validator; the quantifier over programs and builder
modes is explored by the check (checks/c02.py), not proved.  Completeness of `wfCheck`
(`WF f → wfCheck f = true`) is not proved: a rejected function is a *candidate* violation
that is confirmed on the dump (the driver prints the offending use/def pair).
-/
import Verif.C02.Check
namespace Verif.C02
open Verif.C14

/-! ### Sorting helpers: only "is a permutation" is needed -/


theorem mergeTR_perm {α : Type} (le : α → α → Bool) :
    ∀ (f : Nat) (xs ys acc : List α), (mergeTR le f xs ys acc).Perm (acc ++ (xs ++ ys)) := by
  intro f
  induction f with
  | zero =>
    intro xs ys acc
    simp only [mergeTR, List.reverseAux_eq]
    exact (List.reverse_perm acc).append_right _
  | succ f ih =>
    intro xs ys acc
    cases xs with
    | nil =>
      simp only [mergeTR, List.reverseAux_eq, List.nil_append]
      exact (List.reverse_perm acc).append_right _
    | cons x xs =>
      cases ys with
      | nil =>
        simp only [mergeTR, List.reverseAux_eq, List.append_nil]
        exact (List.reverse_perm acc).append_right _
      | cons y ys =>
        simp only [mergeTR]
        split
        · refine (ih xs (y :: ys) (x :: acc)).trans ?_
          simp only [List.cons_append]
          exact List.perm_middle.symm
        · refine (ih (x :: xs) ys (y :: acc)).trans ?_
          have h1 : (y :: acc ++ (x :: xs ++ ys)).Perm (acc ++ (y :: (x :: xs ++ ys))) := by
            simp only [List.cons_append]; exact List.perm_middle.symm
          refine h1.trans (List.Perm.append_left acc ?_)
          have : (y :: (x :: xs ++ ys)).Perm ((x :: xs) ++ (y :: ys)) := List.perm_middle.symm
          simpa using this

theorem mergePairsTR_perm {α : Type} (le : α → α → Bool) :
    ∀ (n : Nat) (ls acc : List (List α)), ls.length ≤ n →
      (mergePairsTR le ls acc).flatten.Perm (ls.flatten ++ acc.flatten) := by
  intro n
  induction n using Nat.strongRecOn with
  | _ n ih =>
    intro ls acc hn
    match ls with
    | [] => simp [mergePairsTR]
    | [a] => simp [mergePairsTR]
    | a :: b :: r =>
      simp only [mergePairsTR]
      have hr : r.length ≤ n - 2 := by simp at hn; omega
      refine (ih (n - 2) (by simp at hn; omega) r _ hr).trans ?_
      simp only [List.flatten_cons]
      have hm := mergeTR_perm le (a.length + b.length) a b []
      simp only [List.nil_append] at hm
      have h2 : (r.flatten ++ (mergeTR le (a.length + b.length) a b [] ++ acc.flatten)).Perm
          (r.flatten ++ ((a ++ b) ++ acc.flatten)) :=
        List.Perm.append_left _ (hm.append_right _)
      refine h2.trans ?_
      have : (r.flatten ++ ((a ++ b) ++ acc.flatten)).Perm (((a ++ b) ++ r.flatten) ++ acc.flatten) := by
        rw [← List.append_assoc]
        exact (List.perm_append_comm).append_right _
      refine this.trans ?_
      simp [List.append_assoc]

theorem mergeAll_perm {α : Type} (le : α → α → Bool) :
    ∀ (f : Nat) (ls : List (List α)), (mergeAll le f ls).Perm ls.flatten := by
  intro f
  induction f with
  | zero => intro ls; simp [mergeAll]
  | succ f ih =>
    intro ls
    match ls with
    | [] => simp [mergeAll]
    | [a] => simp [mergeAll]
    | a :: b :: r =>
      simp only [mergeAll]
      refine (ih _).trans ?_
      have := mergePairsTR_perm le _ (a :: b :: r) [] (Nat.le_refl _)
      simpa using this

theorem flatten_map_singleton {α : Type} (l : List α) : (l.map fun x => [x]).flatten = l := by
  induction l with
  | nil => rfl
  | cons a l ih => simp [ih]

theorem msort_perm {α : Type} (le : α → α → Bool) (l : List α) : (msort le l).Perm l := by
  unfold msort
  have := mergeAll_perm le (l.length + 1) (l.map fun x => [x])
  rwa [flatten_map_singleton] at this

theorem mem_squashAux {α : Type} [BEq α] [LawfulBEq α] (x : α) :
    ∀ (l acc : List α), x ∈ squashAux l acc ↔ x ∈ l ∨ x ∈ acc := by
  intro l
  induction l with
  | nil => intro acc; simp [squashAux]
  | cons a r ih =>
    intro acc
    cases acc with
    | nil => simp only [squashAux, ih]; simp [or_comm]
    | cons b acc =>
      simp only [squashAux]
      split
      · rename_i h
        have hab : a = b := by simpa using h
        subst hab
        rw [ih]; simp only [List.mem_cons]
        constructor
        · rintro (h | h | h)
          · exact Or.inl (Or.inr h)
          · exact Or.inl (Or.inl h)
          · exact Or.inr (Or.inr h)
        · rintro ((h | h) | h | h)
          · exact Or.inr (Or.inl h)
          · exact Or.inl h
          · exact Or.inr (Or.inl h)
          · exact Or.inr (Or.inr h)
      · rw [ih]; simp only [List.mem_cons]
        constructor
        · rintro (h | h | h | h)
          · exact Or.inl (Or.inr h)
          · exact Or.inl (Or.inl h)
          · exact Or.inr (Or.inl h)
          · exact Or.inr (Or.inr h)
        · rintro ((h | h) | h | h)
          · exact Or.inr (Or.inl h)
          · exact Or.inl h
          · exact Or.inr (Or.inr (Or.inl h))
          · exact Or.inr (Or.inr (Or.inr h))

theorem mem_canonSet (p : Nat × Nat) (l : List (Nat × Nat)) : p ∈ canonSet l ↔ p ∈ l := by
  unfold canonSet squash
  rw [mem_squashAux]
  simp only [List.not_mem_nil, or_false]
  exact (msort_perm pairLe l).mem_iff


/-! ### Dominance: re-checked closed sets -/


theorem strictAsc_lt : ∀ (l : List Nat) (a : Nat), strictAsc (a :: l) = true → ∀ x ∈ l, a < x := by
  intro l
  induction l with
  | nil => intro a _ x hx; simp at hx
  | cons b r ih =>
    intro a h x hx
    simp only [strictAsc, Bool.and_eq_true, decide_eq_true_eq] at h
    rcases List.mem_cons.mp hx with e | e
    · subst e; exact h.1
    · exact Nat.lt_trans h.1 (ih b h.2 x e)

theorem strictAsc_nodup : ∀ (l : List Nat), strictAsc l = true → l.Nodup := by
  intro l
  induction l with
  | nil => intro _; exact List.nodup_nil
  | cons a r ih =>
    intro h
    refine List.nodup_cons.mpr ⟨fun hm => ?_, ih ?_⟩
    · exact absurd (strictAsc_lt r a h a hm) (Nat.lt_irrefl a)
    · cases r with
      | nil => rfl
      | cons b r =>
        simp only [strictAsc, Bool.and_eq_true] at h
        exact h.2

/-- A predicate that holds at the start of a path and is closed under the successors other
than `d` holds at the end of every path that avoids `d`. -/
theorem closed_path {G : Graph} {d : Nat} {P : Nat → Prop}
    (hcl : ∀ u, P u → ∀ w ∈ G.succs u, w = d ∨ P w) :
    ∀ {r v : Nat} {p : List Nat}, Path G r p v → d ∉ p → P r → P v := by
  intro r v p hp
  induction hp with
  | single u => intro _ h; exact h
  | @cons u w v p e hp ih =>
    intro hav hr
    have hw : w ≠ d := fun h => hav (List.mem_cons_of_mem _ (h ▸ hp.head_mem))
    have : P w := by
      rcases hcl u hr w e with h | h
      · exact absurd h hw
      · exact h
    exact ih (fun h => hav (List.mem_cons_of_mem _ h)) this

theorem closedOK_sound {G : Graph} {d : Nat} {S : Array Bool} (h : closedOK G d S = true)
    {v : Nat} (hv : S.getD v false = false) : DomFrom G 0 d v := by
  intro p hp
  by_cases hd : d ∈ p
  · exact hd
  · exfalso
    simp only [closedOK, Bool.and_eq_true, Bool.or_eq_true, beq_iff_eq, List.all_eq_true,
      List.mem_range, Bool.not_eq_true'] at h
    obtain ⟨hroot, hcl⟩ := h
    have hcl' : ∀ u, S.getD u false = true → ∀ w ∈ G.succs u, w = d ∨ S.getD w false = true := by
      intro u hu w hw
      by_cases hlt : u < G.size
      · rcases hcl u hlt with h | h
        · rw [hu] at h; exact absurd h (by simp)
        · exact h w hw
      · rw [G.succs_of_size_le (Nat.le_of_not_lt hlt)] at hw; simp at hw
    have h0 : S.getD 0 false = true := by
      rcases hroot with h | h
      · exact absurd (h ▸ hp.head_mem) hd
      · exact h
    have := closed_path (P := fun u => S.getD u false = true) hcl' hp hd h0
    rw [hv] at this; exact absurd this (by simp)

theorem domB_sound {G : Graph} {sets : Array (Array Bool)} (hs : cSets G sets = true)
    {d v : Nat} (h : domB sets d v = true) : DomFrom G 0 d v := by
  simp only [domB, Bool.or_eq_true, beq_iff_eq, Bool.and_eq_true, decide_eq_true_eq,
    Bool.not_eq_true'] at h
  rcases h with h | ⟨hlt, hv⟩
  · subst h; intro p hp; exact hp.last_mem
  · simp only [cSets, Bool.and_eq_true, decide_eq_true_eq, List.all_eq_true, List.mem_range] at hs
    exact closedOK_sound (hs.2 d (hs.1 ▸ hlt)) hv


/-! ### Clause by clause -/



theorem cShape_sound {f : FnDump} (h : cShape f = true) : ShapeOK f := by
  simp only [cShape, Bool.and_eq_true, decide_eq_true_eq, List.all_eq_true] at h
  obtain ⟨⟨⟨h1, h2⟩, h3⟩, h4⟩ := h
  refine ⟨h1, h2, ?_, ?_⟩
  · intro r hr
    rw [hr] at h3
    simpa using h3
  · exact ((msort_perm natLe _).nodup_iff).mp (strictAsc_nodup _ h4)

theorem cCfgInverse_sound {f : FnDump} (h : cCfgInverse f = true) :
    (succEdges f).Perm (predEdges f) := by
  simp only [cCfgInverse, beq_iff_eq] at h
  exact (msort_perm pairLe _).symm.trans (h ▸ msort_perm pairLe _)

theorem cTerminators_sound {f : FnDump} (h : cTerminators f = true) : ∀ b ∈ f.blocks, TermOK b := by
  simpa only [cTerminators, List.all_eq_true, decide_eq_true_eq] using h

theorem cPhis_sound {f : FnDump} (h : cPhis f = true) : ∀ b ∈ f.blocks, PhisOK b := by
  simpa only [cPhis, List.all_eq_true, decide_eq_true_eq] using h

theorem dom_none_iff (G : Graph) (d v : Nat) :
    Verif.C14.dom G ⟨0, none⟩ d v = true ↔ DomFrom G 0 d v := by
  rw [dom_correct]
  unfold Dominates
  constructor
  · intro h
    by_cases hr : Reach G 0 v
    · exact h.1 hr
    · intro p hp; exact absurd ⟨p, hp⟩ hr
  · intro h
    exact ⟨fun _ => h, fun _ r hr => by simp at hr⟩

/-- **The validator's dominance test is exact** (given that the candidate sets passed their
re-check): it says yes iff the block lies on every path from the entry. -/
theorem domX_iff {G : Graph} {sets : Array (Array Bool)} (hs : cSets G sets = true) (d v : Nat) :
    domX G sets d v = true ↔ DomFrom G 0 d v := by
  unfold domX
  rw [Bool.or_eq_true, dom_none_iff]
  constructor
  · rintro (h | h)
    · exact domB_sound hs h
    · exact h
  · intro h; exact Or.inr h

theorem operandOKB_iff {D : Nat → Nat → Prop} {DB : Nat → Nat → Bool}
    (hD : ∀ d v, DB d v = true ↔ D d v)
    {f : FnDump} {fl : Array (Nat × Nat × Instr)} {bu iu : Nat} {use : Instr} {k v : Nat} :
    operandOKB DB f fl bu iu use k v = true ↔ OperandOK D f fl bu iu use k v := by
  unfold operandOKB OperandOK
  by_cases hlt : v < fl.size
  · rw [if_pos hlt, if_pos hlt]
    cases hx : fl[v]? with
    | none => simp
    | some x =>
      obtain ⟨bd, id, d⟩ := x
      simp only [Bool.and_eq_true]
      refine and_congr Iff.rfl ?_
      by_cases hk : use.kind = .Phi
      · rw [if_pos hk, if_pos hk]
        cases hp : (f.blocks[bu]?).bind (fun b => (b.preds[k]?).join) with
        | none => simp
        | some p => simpa using hD bd p
      · rw [if_neg hk, if_neg hk]
        simp only [Bool.or_eq_true, Bool.and_eq_true, decide_eq_true_eq, hD]
  · rw [if_neg hlt, if_neg hlt]
    cases hw : f.vals[v - fl.size]? with
    | none => simp
    | some w => simp

theorem cDefUse_iff {f : FnDump} {sets : Array (Array Bool)} (hs : cSets f.graph sets = true) :
    cDefUse f f.flat sets = true ↔
      ∀ x ∈ f.flatL, ∀ k v, x.2.2.ops[k]? = some (some v) →
        OperandOK (DomFrom f.graph 0) f f.flat x.1 x.2.1 x.2.2 k v := by
  simp only [cDefUse, List.all_eq_true]
  constructor
  · intro h x hx k v hk
    have hm : (some v, k) ∈ x.2.2.ops.zipIdx := by
      rw [List.mem_zipIdx_iff_getElem?]; simpa using hk
    exact (operandOKB_iff (domX_iff hs)).mp (h x hx (some v, k) hm)
  · intro h x hx ok hm
    obtain ⟨o, k⟩ := ok
    cases o with
    | none => rfl
    | some v =>
      have hk : x.2.2.ops[k]? = some (some v) := by
        simpa using List.mem_zipIdx_iff_getElem?.mp hm
      exact (operandOKB_iff (domX_iff hs)).mpr (h x hx k v hk)

theorem cDefUse_sound {f : FnDump} {sets : Array (Array Bool)} (hs : cSets f.graph sets = true)
    (h : cDefUse f f.flat sets = true) :
    ∀ x ∈ f.flatL, ∀ k v, x.2.2.ops[k]? = some (some v) →
      OperandOK (DomFrom f.graph 0) f f.flat x.1 x.2.1 x.2.2 k v :=
  (cDefUse_iff hs).mp h

theorem cRefsTracked_sound {f : FnDump} (h : cRefsTracked f = true) : RefsTracked f := by
  simp only [cRefsTracked, Bool.and_eq_true, List.all_eq_true, beq_iff_eq, Bool.or_eq_true,
    Bool.not_eq_true'] at h
  refine ⟨h.1, fun w hw hl => ?_⟩
  rcases h.2 w hw with h' | h'
  · rw [hl] at h'; exact absurd h' (by simp)
  · exact h'

theorem cRefsInverse_sound {f : FnDump} (h : cRefsInverse f f.flat = true) :
    ∀ p, p ∈ usePairs f f.flat ↔ p ∈ refPairs f f.flat := by
  intro p
  simp only [cRefsInverse, beq_iff_eq] at h
  rw [← mem_canonSet p (usePairs f f.flat), h, mem_canonSet]

theorem cTyping_sound {f : FnDump} (h : cTyping f f.flat = true) :
    ∀ x ∈ f.flatL, TypeRule (f.ctx f.flat) x.2.2 := by
  simpa only [cTyping, List.all_eq_true, decide_eq_true_eq] using h

/-- **Soundness of the validator.**  Every dump the validator accepts is well-formed,
strictly dominated, consistently typed SSA in the sense of `WF`. -/
theorem wfCheck_sound (f : FnDump) (h : wfCheck f = true) : WF f := by
  simp only [wfCheck, Bool.and_eq_true] at h
  obtain ⟨⟨⟨⟨⟨⟨⟨⟨h1, h2⟩, h3⟩, h4⟩, h5⟩, h6⟩, h7⟩, h8⟩, h9⟩ := h
  exact
    { shape := cShape_sound h1
      cfg_inverse := cCfgInverse_sound h2
      terminators := cTerminators_sound h3
      phis := cPhis_sound h4
      defs_dominate_uses := cDefUse_sound h5 h6
      refs_tracked := cRefsTracked_sound h7
      refs_inverse := cRefsInverse_sound h8
      typed := cTyping_sound h9 }


/-! ### Completeness, as far as it is proved

Full statement (NOT proved): `wfCheck f = true ↔ WF f`.
Proved below (`wfCheck_complete_partial`): on a well-formed dump the clauses
`terminators`, `phis`, `defs-dominate-uses` (given the candidate sets pass their re-check),
`refs-tracked`, `typing` and the block part of `shape` all answer `true` — i.e. when the
validator rejects a function through one of these clauses, `WF` really fails for it.
Missing for the full converse: that `msort` produces a canonical form (needed for the
three sort-based tests: distinct IDs, `cfg-inverse`, `refs-inverse`) and that the unverified
`avoidSet` always passes `closedOK` (`dom-sets`). -/
theorem wfCheck_complete_partial {f : FnDump} (h : WF f) :
    cTerminators f = true ∧ cPhis f = true ∧ cRefsTracked f = true ∧ cTyping f f.flat = true ∧
      (∀ sets, cSets f.graph sets = true → cDefUse f f.flat sets = true) ∧
      (f.blocks.zipIdx.all fun x => decide (BlockShape f.nblocks x.1 x.2)) = true := by
  refine ⟨?_, ?_, ?_, ?_, ?_, ?_⟩
  · simpa only [cTerminators, List.all_eq_true, decide_eq_true_eq] using h.terminators
  · simpa only [cPhis, List.all_eq_true, decide_eq_true_eq] using h.phis
  · simp only [cRefsTracked, Bool.and_eq_true, List.all_eq_true, beq_iff_eq, Bool.or_eq_true,
      Bool.not_eq_true']
    refine ⟨h.refs_tracked.1, fun w hw => ?_⟩
    cases hl : w.kind.legit with
    | false => exact Or.inl rfl
    | true => exact Or.inr (h.refs_tracked.2 w hw hl)
  · simpa only [cTyping, List.all_eq_true, decide_eq_true_eq] using h.typed
  · intro sets hs; exact (cDefUse_iff hs).mpr h.defs_dominate_uses
  · simpa only [List.all_eq_true, decide_eq_true_eq] using h.shape.blocks

/-- The typing table is total over the instruction kinds of the model: every kind either
has a row or is listed as deliberately untyped.  (checks/c02.py compares `allKinds` with
the types of package go/ir that implement `ir.Instruction` in the tree under test.) -/
theorem allKinds_complete (k : Kind) : k ∈ allKinds := by
  cases k <;> decide

/-- The driver evaluates the named clause list; it is the same conjunction. -/
theorem wfCheck_eq_clauses (f : FnDump) : (clauses f).all (·.2) = wfCheck f := by
  simp [clauses, wfCheck, List.all, Bool.and_assoc]

/-! ### Readable forms of the two inverse-relation clauses -/


theorem flat_size (f : FnDump) : f.flat.size = f.flatL.length := by simp [FnDump.flat]
theorem flat_get (f : FnDump) (i : Nat) : f.flat[i]? = f.flatL[i]? := by simp [FnDump.flat]

theorem getD_nil_mem {l : Option (List Nat)} {r : Nat} : r ∈ l.getD [] ↔ ∃ l', l = some l' ∧ r ∈ l' := by
  cases l <;> simp

theorem mem_flatMap_zipIdx {α β : Type} (l : List α) (g : α × Nat → List β) (y : β) :
    y ∈ l.zipIdx.flatMap g ↔ ∃ x i, l[i]? = some x ∧ y ∈ g (x, i) := by
  rw [List.mem_flatMap]
  constructor
  · rintro ⟨⟨x, i⟩, hm, hy⟩
    exact ⟨x, i, by simpa using (List.mem_zipIdx_iff_getElem?.mp hm), hy⟩
  · rintro ⟨x, i, hx, hy⟩
    exact ⟨(x, i), List.mem_zipIdx_iff_getElem?.mpr (by simpa using hx), hy⟩

theorem mem_usePairs (f : FnDump) (v u : Nat) :
    (v, u) ∈ usePairs f f.flat ↔
      ∃ x, f.flatL[u]? = some x ∧ some v ∈ x.2.2.ops ∧ (refsOf f f.flat v).isSome = true := by
  unfold usePairs
  rw [mem_flatMap_zipIdx]
  constructor
  · rintro ⟨x, i, hx, hy⟩
    simp only [List.mem_map, List.mem_filter, List.mem_filterMap, id, Prod.mk.injEq] at hy
    obtain ⟨v', ⟨⟨o, ho, hov⟩, ht⟩, rfl, rfl⟩ := hy
    subst hov
    exact ⟨x, hx, ho, ht⟩
  · rintro ⟨x, hx, ho, ht⟩
    refine ⟨x, u, hx, ?_⟩
    simp only [List.mem_map, List.mem_filter, List.mem_filterMap, id, Prod.mk.injEq]
    exact ⟨v, ⟨⟨some v, ho, rfl⟩, ht⟩, by simp⟩

theorem mem_refPairs (f : FnDump) (v r : Nat) :
    (v, r) ∈ refPairs f f.flat ↔ ∃ l, refsOf f f.flat v = some l ∧ r ∈ l := by
  unfold refPairs
  rw [List.mem_append, mem_flatMap_zipIdx, mem_flatMap_zipIdx]
  constructor
  · rintro (⟨x, u, hx, hy⟩ | ⟨w, j, hw, hy⟩)
    · simp only [List.mem_map, Prod.mk.injEq] at hy
      obtain ⟨r', hr', rfl, rfl⟩ := hy
      obtain ⟨l, hl, hr⟩ := getD_nil_mem.mp hr'
      refine ⟨l, ?_, hr⟩
      have hlt : u < f.flat.size := by
        rw [flat_size]; exact (List.getElem?_eq_some_iff.mp hx).1
      unfold refsOf
      rw [if_pos hlt, flat_get, hx]
      exact hl
    · simp only [List.mem_map, Prod.mk.injEq] at hy
      obtain ⟨r', hr', rfl, rfl⟩ := hy
      obtain ⟨l, hl, hr⟩ := getD_nil_mem.mp hr'
      refine ⟨l, ?_, hr⟩
      have hw' : f.vals[j]? = some w := by simpa using hw
      unfold refsOf
      rw [if_neg (by omega), Nat.add_sub_cancel_left, hw']
      exact hl
  · rintro ⟨l, hl, hr⟩
    unfold refsOf at hl
    split at hl
    · rename_i hlt
      left
      rw [flat_get] at hl
      cases hx : f.flatL[v]? with
      | none => rw [hx] at hl; simp at hl
      | some x =>
        rw [hx] at hl
        refine ⟨x, v, hx, ?_⟩
        simp only [List.mem_map, Prod.mk.injEq]
        exact ⟨r, getD_nil_mem.mpr ⟨l, hl, hr⟩, by simp⟩
    · rename_i hlt
      right
      cases hw : f.vals[v - f.flat.size]? with
      | none => rw [hw] at hl; simp at hl
      | some w =>
        rw [hw] at hl
        refine ⟨w, v - f.flat.size, by simpa using hw, ?_⟩
        simp only [List.mem_map, Prod.mk.injEq]
        exact ⟨r, getD_nil_mem.mpr ⟨l, hl, hr⟩, by omega, rfl⟩

/-- **Operands and Referrers are exact mutual inverses** on an accepted dump: for every
value `v` whose `Referrers()` is defined (list `l`), instruction number `i` is in `l` iff
`v` is one of the operands of instruction `i`. -/
theorem refs_exact {f : FnDump} (h : WF f) (v i : Nat) (l : List Nat)
    (hl : refsOf f f.flat v = some l) :
    i ∈ l ↔ ∃ x, f.flatL[i]? = some x ∧ some v ∈ x.2.2.ops := by
  constructor
  · intro hi
    have : (v, i) ∈ refPairs f f.flat := (mem_refPairs f v i).mpr ⟨l, hl, hi⟩
    obtain ⟨x, hx, ho, _⟩ := (mem_usePairs f v i).mp ((h.refs_inverse (v, i)).mpr this)
    exact ⟨x, hx, ho⟩
  · rintro ⟨x, hx, ho⟩
    have : (v, i) ∈ usePairs f f.flat := (mem_usePairs f v i).mpr ⟨x, hx, ho, by simp [hl]⟩
    obtain ⟨l', hl', hi⟩ := (mem_refPairs f v i).mp ((h.refs_inverse (v, i)).mp this)
    rw [hl] at hl'; cases hl'; exact hi



def succsAt (f : FnDump) (a : Nat) : List Nat := ((f.blocks[a]?).map Block.succsN).getD []
def predsAt (f : FnDump) (b : Nat) : List Nat := ((f.blocks[b]?).map Block.predsN).getD []

theorem count_map_fst (k a b : Nat) (l : List Nat) :
    List.count (a, b) (l.map fun s => (k, s)) = if a = k then List.count b l else 0 := by
  induction l with
  | nil => simp
  | cons s l ih =>
    simp only [List.map_cons, List.count_cons, ih, beq_iff_eq, Prod.mk.injEq]
    by_cases h : a = k
    · subst h; simp [eq_comm]
    · have : ¬ (k = a) := fun e => h e.symm
      simp [h, this]

theorem count_map_snd (k a b : Nat) (l : List Nat) :
    List.count (a, b) (l.map fun p => (p, k)) = if b = k then List.count a l else 0 := by
  induction l with
  | nil => simp
  | cons s l ih =>
    simp only [List.map_cons, List.count_cons, ih, beq_iff_eq, Prod.mk.injEq]
    by_cases h : b = k
    · subst h; simp [eq_comm]
    · have : ¬ (k = b) := fun e => h e.symm
      simp [h, this]

theorem count_succEdges_aux (l : List Block) (k a b : Nat) :
    List.count (a, b) ((l.zipIdx k).flatMap fun x => x.1.succsN.map fun s => (x.2, s)) =
      if k ≤ a then List.count b (((l[a - k]?).map Block.succsN).getD []) else 0 := by
  induction l generalizing k with
  | nil => simp
  | cons blk l ih =>
    simp only [List.zipIdx_cons, List.flatMap_cons, List.count_append, count_map_fst, ih]
    by_cases h1 : a = k
    · subst h1
      have h5 : ¬ (a + 1 ≤ a) := by omega
      simp [h5]
    · by_cases h2 : k ≤ a
      · have h3 : k + 1 ≤ a := by omega
        have h4 : a - k = (a - (k + 1)) + 1 := by omega
        simp [h1, h2, h3, h4]
      · have h3 : ¬ (k + 1 ≤ a) := by omega
        simp [h1, h2, h3]

theorem count_predEdges_aux (l : List Block) (k a b : Nat) :
    List.count (a, b) ((l.zipIdx k).flatMap fun x => x.1.predsN.map fun p => (p, x.2)) =
      if k ≤ b then List.count a (((l[b - k]?).map Block.predsN).getD []) else 0 := by
  induction l generalizing k with
  | nil => simp
  | cons blk l ih =>
    simp only [List.zipIdx_cons, List.flatMap_cons, List.count_append, count_map_snd, ih]
    by_cases h1 : b = k
    · subst h1
      have h5 : ¬ (b + 1 ≤ b) := by omega
      simp [h5]
    · by_cases h2 : k ≤ b
      · have h3 : k + 1 ≤ b := by omega
        have h4 : b - k = (b - (k + 1)) + 1 := by omega
        simp [h1, h2, h3, h4]
      · have h3 : ¬ (k + 1 ≤ b) := by omega
        simp [h1, h2, h3]

/-- **Preds and Succs are exact mutual inverses, with multiplicity**: block `b` occurs in
`Blocks[a].Succs` exactly as often as block `a` occurs in `Blocks[b].Preds`. -/
theorem cfg_exact {f : FnDump} (h : WF f) (a b : Nat) :
    List.count b (succsAt f a) = List.count a (predsAt f b) := by
  have := h.cfg_inverse.count_eq (a, b)
  unfold succEdges predEdges at this
  rw [count_succEdges_aux f.blocks 0 a b, count_predEdges_aux f.blocks 0 a b] at this
  simpa [succsAt, predsAt] using this


/-! ### The dominance clause with explicit paths -/

/-- On an accepted dump, a non-φ instruction `use` (position `iu` of block `bu`) that has
the instruction-defined value `v` as operand `k`: the defining instruction (position `id`
of block `bd`) is a value, and it is earlier in the same block or its block is on EVERY
control-flow path from the entry to `bu`. -/
theorem def_on_every_path {f : FnDump} (h : WF f) {bu iu : Nat} {use : Instr}
    (hx : (bu, iu, use) ∈ f.flatL) (hk : use.kind ≠ .Phi) {k v : Nat}
    (hop : use.ops[k]? = some (some v)) {bd id : Nat} {d : Instr}
    (hd : f.flatL[v]? = some (bd, id, d)) :
    d.ty.isSome = true ∧
      ((bd = bu ∧ id < iu) ∨ (bd ≠ bu ∧ ∀ p, Path f.graph 0 p bu → bd ∈ p)) := by
  have := h.defs_dominate_uses _ hx k v hop
  unfold OperandOK at this
  have hlt : v < f.flat.size := by
    rw [flat_size]; exact (List.getElem?_eq_some_iff.mp hd).1
  rw [if_pos hlt, flat_get, hd] at this
  simp only [if_neg hk] at this
  exact this

/-- The same for operand `k` of a φ-node: the definition's block is on EVERY path from the
entry to the `k`-th predecessor. -/
theorem phi_def_on_every_path {f : FnDump} (h : WF f) {bu iu : Nat} {use : Instr}
    (hx : (bu, iu, use) ∈ f.flatL) (hk : use.kind = .Phi) {k v : Nat}
    (hop : use.ops[k]? = some (some v)) {bd id : Nat} {d : Instr}
    (hd : f.flatL[v]? = some (bd, id, d)) :
    d.ty.isSome = true ∧
      ∃ b pr, f.blocks[bu]? = some b ∧ b.preds[k]? = some (some pr) ∧
        ∀ p, Path f.graph 0 p pr → bd ∈ p := by
  have := h.defs_dominate_uses _ hx k v hop
  unfold OperandOK at this
  have hlt : v < f.flat.size := by
    rw [flat_size]; exact (List.getElem?_eq_some_iff.mp hd).1
  rw [if_pos hlt, flat_get, hd] at this
  simp only [if_pos hk] at this
  refine ⟨this.1, ?_⟩
  have h2 := this.2
  cases hb : f.blocks[bu]? with
  | none => simp [hb] at h2
  | some b =>
    cases hp : b.preds[k]? with
    | none => simp [hb, hp] at h2
    | some q =>
      cases q with
      | none => simp [hb, hp] at h2
      | some pr =>
        simp only [hb, hp, Option.bind_some, Option.join_some] at h2
        exact ⟨b, pr, rfl, hp, h2⟩

/-! ### Non-vacuity

The real dump (harness/cmd/c02dump, default mode) of

    func f(n int, p *int) int { s := 0; for i := 0; i < n; i++ { s += i }; *p = s; return s }

blocks 0 entry → 1 loop header (two φ-nodes) → 2 body → 1, 1 → 3 exit.  The validator
accepts it, so it is `WF`; with one φ-edge redirected to a value defined in the loop body
along the entry edge, or the type of a φ changed, it is rejected. -/
def exF : FnDump :=
  { types := #[{ ctor := .basic, under := 0, core := some 0, flags := 2, len := 2, kids := [] },
      { ctor := .pointer, under := 1, core := some 1, flags := 0, len := 0, kids := [0] },
      { ctor := .basic, under := 2, core := some 2, flags := 1, len := 1, kids := [] }]
    vals := #[{ kind := .param, ty := some 0, refs := some [3] },
      { kind := .param, ty := some 1, refs := some [8] },
      { kind := .const, ty := some 0, refs := none },
      { kind := .const, ty := some 0, refs := none },
      { kind := .const, ty := some 0, refs := none }]
    blocks := [
      { index := some 0, preds := [], succs := [some 1], instrs := [
          { kind := .Jump, ty := none, blk := some 0, irid := 1, a := none, b := none, c := none, xs := [], ops := [], refs := none }] },
      { index := some 1, preds := [some 0, some 2], succs := [some 2, some 3], instrs := [
          { kind := .Phi, ty := some 0, blk := some 1, irid := 2, a := none, b := none, c := none, xs := [], ops := [some 12, some 5], refs := some [5, 8, 9] },
          { kind := .Phi, ty := some 0, blk := some 1, irid := 3, a := none, b := none, c := none, xs := [], ops := [some 13, some 6], refs := some [3, 5, 6] },
          { kind := .BinOp, ty := some 2, blk := some 1, irid := 4, a := some 14, b := none, c := none, xs := [], ops := [some 2, some 10], refs := some [4] },
          { kind := .If, ty := none, blk := some 1, irid := 5, a := none, b := none, c := none, xs := [], ops := [some 3], refs := none }] },
      { index := some 2, preds := [some 1], succs := [some 1], instrs := [
          { kind := .BinOp, ty := some 0, blk := some 2, irid := 6, a := some 1, b := none, c := none, xs := [], ops := [some 1, some 2], refs := some [1] },
          { kind := .BinOp, ty := some 0, blk := some 2, irid := 7, a := some 1, b := none, c := none, xs := [], ops := [some 2, some 14], refs := some [2] },
          { kind := .Jump, ty := none, blk := some 2, irid := 8, a := none, b := none, c := none, xs := [], ops := [], refs := none }] },
      { index := some 3, preds := [some 1], succs := [], instrs := [
          { kind := .Store, ty := none, blk := some 3, irid := 9, a := none, b := none, c := none, xs := [], ops := [some 11, some 1], refs := none },
          { kind := .Return, ty := none, blk := some 3, irid := 10, a := some 1, b := none, c := none, xs := [], ops := [some 1], refs := none }] }]
    recover := none
    results := [0] }

example : wfCheck exF = true := by decide
example : WF exF := wfCheck_sound exF (by decide)
/-- the body block (2) is on every path from the entry to itself, the header (1) on every
path to the exit (3) — instances of the path statement obtained from the theorem -/
example : ∀ p, Path exF.graph 0 p 3 → 1 ∈ p :=
  ((def_on_every_path (wfCheck_sound exF (by decide)) (bu := 3) (iu := 0)
    (use := (exF.flatL.getD 8 default).2.2) (k := 1) (v := 1) (bd := 1) (id := 0)
    (d := (exF.flatL.getD 1 default).2.2)
    (by decide) (by decide) (by decide) (by decide)).2.resolve_left (by decide)).2
example : List.count 1 (succsAt exF 2) = List.count 2 (predsAt exF 1) :=
  cfg_exact (wfCheck_sound exF (by decide)) 2 1

/-- φ `s` takes the body's `s+i` (value 5) along the edge from the ENTRY: not dominated -/
def exBadDom : FnDump :=
  { exF with blocks := exF.blocks.modify 1 fun b =>
      { b with instrs := b.instrs.modify 0 fun i => { i with ops := [some 5, some 5] } } }
example : wfCheck exBadDom = false := by decide
example : (clauses exBadDom).filter (fun c => !c.2) = [("defs-dominate-uses", false)] := by decide

/-- φ `i` claims type bool -/
def exBadType : FnDump :=
  { exF with blocks := exF.blocks.modify 1 fun b =>
      { b with instrs := b.instrs.modify 1 fun i => { i with ty := some 2 } } }
example : (clauses exBadType).filter (fun c => !c.2) = [("typing", false)] := by decide

end Verif.C02
