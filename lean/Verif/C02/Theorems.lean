/-
C02 — property theorems.

* `wfCheck_iff`     **the validator decides the specification**: `wfCheck f = true ↔ WF f` for
                    EVERY dump `f` (any number of blocks / instructions, any CFG).  `WF`
                    (Spec.lean) is the declarative statement of the property for one built
                    function; its dominance clause quantifies over all control-flow paths
                    (`Verif.C14.DomFrom`).  `wfCheck_sound` (→: an accepted function is
                    well-formed) and `wfCheck_complete` (←: a rejected function really
                    violates a clause of `WF`) are its two directions.
* `def_on_every_path`, `phi_def_on_every_path`   the dominance clause of an accepted dump
                    spelled out with explicit paths.
* `field_operand_checked`   every value held in an operand FIELD of an instruction's struct is
                    one of the operands `Operands()` reports — hence subject to the dominance,
                    referrer and typing clauses — and is not a value outside every block.
* `cfg_exact`       Preds/Succs are mutual inverses with multiplicity (count form).
* `refs_exact`      Operands/Referrers are mutual inverses (membership form).
* `params_match_signature`   `Params` = receiver (if any) followed by the signature's parameters.
* `closedOK_sound`  the re-check of a candidate "reachable avoiding d" set is sound: a block
                    outside an accepted set has `d` on every path from the entry.
* `domX_iff`        the validator's dominance test is exact, whatever the unverified search
                    computed.
* `msort_perm`, `msort_sorted`, `msort_canon`, `mem_canonSet`, `canonSet_eq_iff` (Sorting.lean)
                    the sorting helpers are verified.

Level of the property: translation validation.  The theorems are applied per dumped
function by running the compiled validator; the quantifier over programs and builder
modes is explored by the check (checks/c02.py), not proved.
-/
import Verif.C02.Check
import Verif.C02.Sorting
namespace Verif.C02
open Verif.C14

/-! ### Dominance: re-checked closed sets -/


theorem strictAsc_lt : ∀ (l : List Nat) (a : Nat), strictAsc (a :: l) = true → ∀ x ∈ l, a < x := by
  intro l
  induction l with
  | nil => intro a _ x hx; simp at hx
  | cons b r ih =>
    intro a h x hx
    simp only [strictAsc, Bool.and_eq_true, decide_eq_true_eq] at h
    rcases List.mem_cons.mp hx with e | e
    · subst e; exact h.1
    · exact Nat.lt_trans h.1 (ih b h.2 x e)

theorem strictAsc_nodup : ∀ (l : List Nat), strictAsc l = true → l.Nodup := by
  intro l
  induction l with
  | nil => intro _; exact List.nodup_nil
  | cons a r ih =>
    intro h
    refine List.nodup_cons.mpr ⟨fun hm => ?_, ih ?_⟩
    · exact absurd (strictAsc_lt r a h a hm) (Nat.lt_irrefl a)
    · cases r with
      | nil => rfl
      | cons b r =>
        simp only [strictAsc, Bool.and_eq_true] at h
        exact h.2

/-- A predicate that holds at the start of a path and is closed under the successors other
than `d` holds at the end of every path that avoids `d`. -/
theorem closed_path {G : Graph} {d : Nat} {P : Nat → Prop}
    (hcl : ∀ u, P u → ∀ w ∈ G.succs u, w = d ∨ P w) :
    ∀ {r v : Nat} {p : List Nat}, Path G r p v → d ∉ p → P r → P v := by
  intro r v p hp
  induction hp with
  | single u => intro _ h; exact h
  | @cons u w v p e hp ih =>
    intro hav hr
    have hw : w ≠ d := fun h => hav (List.mem_cons_of_mem _ (h ▸ hp.head_mem))
    have : P w := by
      rcases hcl u hr w e with h | h
      · exact absurd h hw
      · exact h
    exact ih (fun h => hav (List.mem_cons_of_mem _ h)) this

theorem closedOK_sound {G : Graph} {d : Nat} {S : Array Bool} (h : closedOK G d S = true)
    {v : Nat} (hv : S.getD v false = false) : DomFrom G 0 d v := by
  intro p hp
  by_cases hd : d ∈ p
  · exact hd
  · exfalso
    simp only [closedOK, Bool.and_eq_true, Bool.or_eq_true, beq_iff_eq, List.all_eq_true,
      List.mem_range, Bool.not_eq_true'] at h
    obtain ⟨hroot, hcl⟩ := h
    have hcl' : ∀ u, S.getD u false = true → ∀ w ∈ G.succs u, w = d ∨ S.getD w false = true := by
      intro u hu w hw
      by_cases hlt : u < G.size
      · rcases hcl u hlt with h | h
        · rw [hu] at h; exact absurd h (by simp)
        · exact h w hw
      · rw [G.succs_of_size_le (Nat.le_of_not_lt hlt)] at hw; simp at hw
    have h0 : S.getD 0 false = true := by
      rcases hroot with h | h
      · exact absurd (h ▸ hp.head_mem) hd
      · exact h
    have := closed_path (P := fun u => S.getD u false = true) hcl' hp hd h0
    rw [hv] at this; exact absurd this (by simp)


theorem strictAsc_of_sorted_nodup : ∀ (l : List Nat), l.Pairwise (fun a b => natLe a b = true) →
    l.Nodup → strictAsc l = true := by
  intro l
  induction l with
  | nil => intro _ _; rfl
  | cons a r ih =>
    intro hs hn
    cases r with
    | nil => rfl
    | cons b r =>
      simp only [strictAsc, Bool.and_eq_true, decide_eq_true_eq]
      have hab : natLe a b = true := (List.pairwise_cons.mp hs).1 b (by simp)
      have hne : a ≠ b := fun e => (List.nodup_cons.mp hn).1 (e ▸ List.mem_cons_self)
      refine ⟨?_, ih (List.pairwise_cons.mp hs).2 (List.nodup_cons.mp hn).2⟩
      simp only [natLe, decide_eq_true_eq] at hab
      omega

theorem vetSets_getD {G : Graph} {sets : Array (Array Bool)} {d : Nat}
    (h : (vetSets G sets).getD d false = true) : closedOK G d (sets.getD d #[]) = true := by
  unfold vetSets at h
  by_cases hd : d < G.size
  · simpa [Array.getD, hd] using h
  · simp [Array.getD, hd] at h

theorem domV_sound {G : Graph} {sets : Array (Array Bool)} {d v : Nat}
    (h : domV sets (vetSets G sets) d v = true) : DomFrom G 0 d v := by
  simp only [domV, Bool.or_eq_true, beq_iff_eq, Bool.and_eq_true, Bool.not_eq_true'] at h
  rcases h with h | ⟨hok, hv⟩
  · subst h; intro p hp; exact hp.last_mem
  · exact closedOK_sound (vetSets_getD hok) hv

theorem dom_none_iff (G : Graph) (d v : Nat) :
    Verif.C14.dom G ⟨0, none⟩ d v = true ↔ DomFrom G 0 d v := by
  rw [dom_correct]
  unfold Dominates
  constructor
  · intro h
    by_cases hr : Reach G 0 v
    · exact h.1 hr
    · intro p hp; exact absurd ⟨p, hp⟩ hr
  · intro h
    exact ⟨fun _ => h, fun _ r hr => by simp at hr⟩

/-- **The validator's dominance test is exact**, whatever the unverified search `avoidSet`
produced (a candidate set is consulted only if it passes its re-check): it says yes iff the
block lies on every path from the entry. -/
theorem domX_iff (G : Graph) (sets : Array (Array Bool)) (d v : Nat) :
    domX G sets d v = true ↔ DomFrom G 0 d v := by
  unfold domX
  rw [Bool.or_eq_true, dom_none_iff]
  constructor
  · rintro (h | h)
    · exact domV_sound h
    · exact h
  · intro h; exact Or.inr h

theorem domXk_eq (G : Graph) (sets : Array (Array Bool)) :
    domXk G sets (vetSets G sets) = domX G sets := rfl

theorem operandOKB_iff {D : Nat → Nat → Prop} {DB : Nat → Nat → Bool}
    (hD : ∀ d v, DB d v = true ↔ D d v)
    {f : FnDump} {fl : Array (Nat × Nat × Instr)} {bu iu : Nat} {use : Instr} {k v : Nat} :
    operandOKB DB f fl bu iu use k v = true ↔ OperandOK D f fl bu iu use k v := by
  unfold operandOKB OperandOK
  by_cases hlt : v < fl.size
  · rw [if_pos hlt, if_pos hlt]
    cases hx : fl[v]? with
    | none => simp
    | some x =>
      obtain ⟨bd, id, d⟩ := x
      simp only [Bool.and_eq_true]
      refine and_congr Iff.rfl ?_
      by_cases hk : use.kind = .Phi
      · rw [if_pos hk, if_pos hk]
        cases hp : (f.blocks[bu]?).bind (fun b => (b.preds[k]?).join) with
        | none => simp
        | some p => simpa using hD bd p
      · rw [if_neg hk, if_neg hk]
        simp only [Bool.or_eq_true, Bool.and_eq_true, decide_eq_true_eq, hD]
  · rw [if_neg hlt, if_neg hlt]
    cases hw : f.vals[v - fl.size]? with
    | none => simp
    | some w => simp

/-! ### Clause by clause: each Bool clause of the validator is equivalent to its clause of `WF` -/

theorem cShape_iff {f : FnDump} : cShape f = true ↔ ShapeOK f := by
  simp only [cShape, Bool.and_eq_true, decide_eq_true_eq, List.all_eq_true]
  constructor
  · rintro ⟨⟨⟨h1, h2⟩, h3⟩, h4⟩
    refine ⟨h1, h2, ?_, ?_⟩
    · intro r hr
      rw [hr] at h3
      simpa using h3
    · exact ((msort_perm natLe _).nodup_iff).mp (strictAsc_nodup _ h4)
  · intro h
    refine ⟨⟨⟨h.entry, h.blocks⟩, ?_⟩, ?_⟩
    · cases hr : f.recover with
      | none => rfl
      | some r => simpa using h.recover r hr
    · exact strictAsc_of_sorted_nodup _ (msort_sorted natLe natLe_trans natLe_total _)
        (((msort_perm natLe _).nodup_iff).mpr h.ids_distinct)

theorem cCfgInverse_iff {f : FnDump} : cCfgInverse f = true ↔ (succEdges f).Perm (predEdges f) := by
  simp only [cCfgInverse, beq_iff_eq]
  constructor
  · intro h
    exact (msort_perm pairLe _).symm.trans (h ▸ msort_perm pairLe _)
  · exact msort_canon pairLe pairLe_trans pairLe_total pairLe_antisymm

theorem cTerminators_iff {f : FnDump} : cTerminators f = true ↔ ∀ b ∈ f.blocks, TermOK b := by
  simp only [cTerminators, List.all_eq_true, decide_eq_true_eq]

theorem cPhis_iff {f : FnDump} : cPhis f = true ↔ ∀ b ∈ f.blocks, PhisOK b := by
  simp only [cPhis, List.all_eq_true, decide_eq_true_eq]

theorem cDefUse_iff {f : FnDump} {sets : Array (Array Bool)} :
    cDefUse f f.flat sets = true ↔
      ∀ x ∈ f.flatL, ∀ k v, x.2.2.ops[k]? = some (some v) →
        OperandOK (DomFrom f.graph 0) f f.flat x.1 x.2.1 x.2.2 k v := by
  simp only [cDefUse, List.all_eq_true, domXk_eq]
  constructor
  · intro h x hx k v hk
    have hm : (some v, k) ∈ x.2.2.ops.zipIdx := by
      rw [List.mem_zipIdx_iff_getElem?]; simpa using hk
    exact (operandOKB_iff (domX_iff f.graph sets)).mp (h x hx (some v, k) hm)
  · intro h x hx ok hm
    obtain ⟨o, k⟩ := ok
    cases o with
    | none => rfl
    | some v =>
      have hk : x.2.2.ops[k]? = some (some v) := by
        simpa using List.mem_zipIdx_iff_getElem?.mp hm
      exact (operandOKB_iff (domX_iff f.graph sets)).mpr (h x hx k v hk)

theorem cRefsTracked_iff {f : FnDump} : cRefsTracked f = true ↔ RefsTracked f := by
  simp only [cRefsTracked, RefsTracked, Bool.and_eq_true, List.all_eq_true, beq_iff_eq,
    Bool.or_eq_true, Bool.not_eq_true']
  refine and_congr Iff.rfl ?_
  constructor
  · intro h w hw hl
    rcases h w hw with h' | h'
    · rw [hl] at h'; exact absurd h' (by simp)
    · exact h'
  · intro h w hw
    cases hl : w.kind.legit with
    | false => exact Or.inl rfl
    | true => exact Or.inr (h w hw hl)

theorem cRefsInverse_iff {f : FnDump} :
    cRefsInverse f f.flat = true ↔ ∀ p, p ∈ usePairs f f.flat ↔ p ∈ refPairs f f.flat := by
  simp only [cRefsInverse, beq_iff_eq]
  exact canonSet_eq_iff _ _

theorem cTyping_iff {f : FnDump} :
    cTyping f f.flat = true ↔ ∀ x ∈ f.flatL, TypeRule (f.ctx f.flat) x.2.2 := by
  simp only [cTyping, List.all_eq_true, decide_eq_true_eq]

theorem cOperandsComplete_iff {f : FnDump} :
    cOperandsComplete f = true ↔ ∀ x ∈ f.flatL, x.2.2.ops.Perm x.2.2.fops := by
  simp only [cOperandsComplete, List.all_eq_true, Bool.or_eq_true, beq_iff_eq, List.isPerm_iff]
  constructor
  · intro h x hx
    rcases h x hx with h' | h'
    · rw [h']
    · exact h'
  · intro h x hx; exact Or.inr (h x hx)

theorem cFunc_iff {f : FnDump} : cFunc f = true ↔ FuncOK f := by
  simp only [cFunc, decide_eq_true_eq]

/-- **The validator decides the specification.**  A dump is accepted iff it is well-formed,
strictly dominated, consistently typed SSA in the sense of `WF`. -/
theorem wfCheck_iff (f : FnDump) : wfCheck f = true ↔ WF f := by
  simp only [wfCheck, Bool.and_eq_true, cShape_iff, cCfgInverse_iff, cTerminators_iff, cPhis_iff,
    cDefUse_iff, cRefsTracked_iff, cRefsInverse_iff, cTyping_iff, cOperandsComplete_iff, cFunc_iff]
  constructor
  · rintro ⟨⟨⟨⟨⟨⟨⟨⟨⟨h1, h2⟩, h3⟩, h4⟩, h5⟩, h6⟩, h7⟩, h8⟩, h9⟩, h10⟩
    exact ⟨h1, h2, h3, h4, h5, h6, h7, h8, h9, h10⟩
  · intro h
    exact ⟨⟨⟨⟨⟨⟨⟨⟨⟨h.shape, h.cfg_inverse⟩, h.terminators⟩, h.phis⟩, h.defs_dominate_uses⟩,
      h.refs_tracked⟩, h.refs_inverse⟩, h.typed⟩, h.operands_complete⟩, h.func_ok⟩

/-- **Soundness of the validator.**  Every dump the validator accepts is well-formed,
strictly dominated, consistently typed SSA in the sense of `WF`. -/
theorem wfCheck_sound (f : FnDump) (h : wfCheck f = true) : WF f := (wfCheck_iff f).mp h

/-- **Completeness of the validator.**  A well-formed dump is accepted: when the validator
rejects a function, some clause of `WF` really fails for it (no clause is an approximation —
the three sort-based tests are exact by `msort_canon` / `canonSet_eq_iff`, dominance by
`domX_iff`).  This replaces the earlier `wfCheck_complete_partial`, which covered only the
`decide`-based clauses. -/
theorem wfCheck_complete (f : FnDump) (h : WF f) : wfCheck f = true := (wfCheck_iff f).mpr h

/-- The typing table is total over the instruction kinds of the model: every kind has a row.
(checks/c02.py compares `allKinds` with the types of package go/ir that implement
`ir.Instruction` in the tree under test.) -/
theorem allKinds_complete (k : Kind) : k ∈ allKinds := by
  cases k <;> decide

/-- The driver evaluates the named clause list; it is the same conjunction. -/
theorem wfCheck_eq_clauses (f : FnDump) : (clauses f).all (·.2) = wfCheck f := by
  simp [clauses, clausesS, wfCheck, List.all, Bool.and_assoc]

/-! ### Readable forms of the two inverse-relation clauses -/


theorem flat_size (f : FnDump) : f.flat.size = f.flatL.length := by simp [FnDump.flat]
theorem flat_get (f : FnDump) (i : Nat) : f.flat[i]? = f.flatL[i]? := by simp [FnDump.flat]

theorem getD_nil_mem {l : Option (List Nat)} {r : Nat} : r ∈ l.getD [] ↔ ∃ l', l = some l' ∧ r ∈ l' := by
  cases l <;> simp

theorem mem_flatMap_zipIdx {α β : Type} (l : List α) (g : α × Nat → List β) (y : β) :
    y ∈ l.zipIdx.flatMap g ↔ ∃ x i, l[i]? = some x ∧ y ∈ g (x, i) := by
  rw [List.mem_flatMap]
  constructor
  · rintro ⟨⟨x, i⟩, hm, hy⟩
    exact ⟨x, i, by simpa using (List.mem_zipIdx_iff_getElem?.mp hm), hy⟩
  · rintro ⟨x, i, hx, hy⟩
    exact ⟨(x, i), List.mem_zipIdx_iff_getElem?.mpr (by simpa using hx), hy⟩

theorem mem_usePairs (f : FnDump) (v u : Nat) :
    (v, u) ∈ usePairs f f.flat ↔
      ∃ x, f.flatL[u]? = some x ∧ some v ∈ x.2.2.ops ∧ (refsOf f f.flat v).isSome = true := by
  unfold usePairs
  rw [mem_flatMap_zipIdx]
  constructor
  · rintro ⟨x, i, hx, hy⟩
    simp only [List.mem_map, List.mem_filter, List.mem_filterMap, id, Prod.mk.injEq] at hy
    obtain ⟨v', ⟨⟨o, ho, hov⟩, ht⟩, rfl, rfl⟩ := hy
    subst hov
    exact ⟨x, hx, ho, ht⟩
  · rintro ⟨x, hx, ho, ht⟩
    refine ⟨x, u, hx, ?_⟩
    simp only [List.mem_map, List.mem_filter, List.mem_filterMap, id, Prod.mk.injEq]
    exact ⟨v, ⟨⟨some v, ho, rfl⟩, ht⟩, by simp⟩

theorem mem_refPairs (f : FnDump) (v r : Nat) :
    (v, r) ∈ refPairs f f.flat ↔ ∃ l, refsOf f f.flat v = some l ∧ r ∈ l := by
  unfold refPairs
  rw [List.mem_append, mem_flatMap_zipIdx, mem_flatMap_zipIdx]
  constructor
  · rintro (⟨x, u, hx, hy⟩ | ⟨w, j, hw, hy⟩)
    · simp only [List.mem_map, Prod.mk.injEq] at hy
      obtain ⟨r', hr', rfl, rfl⟩ := hy
      obtain ⟨l, hl, hr⟩ := getD_nil_mem.mp hr'
      refine ⟨l, ?_, hr⟩
      have hlt : u < f.flat.size := by
        rw [flat_size]; exact (List.getElem?_eq_some_iff.mp hx).1
      unfold refsOf
      rw [if_pos hlt, flat_get, hx]
      exact hl
    · simp only [List.mem_map, Prod.mk.injEq] at hy
      obtain ⟨r', hr', rfl, rfl⟩ := hy
      obtain ⟨l, hl, hr⟩ := getD_nil_mem.mp hr'
      refine ⟨l, ?_, hr⟩
      have hw' : f.vals[j]? = some w := by simpa using hw
      unfold refsOf
      rw [if_neg (by omega), Nat.add_sub_cancel_left, hw']
      exact hl
  · rintro ⟨l, hl, hr⟩
    unfold refsOf at hl
    split at hl
    · rename_i hlt
      left
      rw [flat_get] at hl
      cases hx : f.flatL[v]? with
      | none => rw [hx] at hl; simp at hl
      | some x =>
        rw [hx] at hl
        refine ⟨x, v, hx, ?_⟩
        simp only [List.mem_map, Prod.mk.injEq]
        exact ⟨r, getD_nil_mem.mpr ⟨l, hl, hr⟩, by simp⟩
    · rename_i hlt
      right
      cases hw : f.vals[v - f.flat.size]? with
      | none => rw [hw] at hl; simp at hl
      | some w =>
        rw [hw] at hl
        refine ⟨w, v - f.flat.size, by simpa using hw, ?_⟩
        simp only [List.mem_map, Prod.mk.injEq]
        exact ⟨r, getD_nil_mem.mpr ⟨l, hl, hr⟩, by omega, rfl⟩

/-- **Operands and Referrers are exact mutual inverses** on an accepted dump: for every
value `v` whose `Referrers()` is defined (list `l`), instruction number `i` is in `l` iff
`v` is one of the operands of instruction `i`. -/
theorem refs_exact {f : FnDump} (h : WF f) (v i : Nat) (l : List Nat)
    (hl : refsOf f f.flat v = some l) :
    i ∈ l ↔ ∃ x, f.flatL[i]? = some x ∧ some v ∈ x.2.2.ops := by
  constructor
  · intro hi
    have : (v, i) ∈ refPairs f f.flat := (mem_refPairs f v i).mpr ⟨l, hl, hi⟩
    obtain ⟨x, hx, ho, _⟩ := (mem_usePairs f v i).mp ((h.refs_inverse (v, i)).mpr this)
    exact ⟨x, hx, ho⟩
  · rintro ⟨x, hx, ho⟩
    have : (v, i) ∈ usePairs f f.flat := (mem_usePairs f v i).mpr ⟨x, hx, ho, by simp [hl]⟩
    obtain ⟨l', hl', hi⟩ := (mem_refPairs f v i).mp ((h.refs_inverse (v, i)).mp this)
    rw [hl] at hl'; cases hl'; exact hi



def succsAt (f : FnDump) (a : Nat) : List Nat := ((f.blocks[a]?).map Block.succsN).getD []
def predsAt (f : FnDump) (b : Nat) : List Nat := ((f.blocks[b]?).map Block.predsN).getD []

theorem count_map_fst (k a b : Nat) (l : List Nat) :
    List.count (a, b) (l.map fun s => (k, s)) = if a = k then List.count b l else 0 := by
  induction l with
  | nil => simp
  | cons s l ih =>
    simp only [List.map_cons, List.count_cons, ih, beq_iff_eq, Prod.mk.injEq]
    by_cases h : a = k
    · subst h; simp [eq_comm]
    · have : ¬ (k = a) := fun e => h e.symm
      simp [h, this]

theorem count_map_snd (k a b : Nat) (l : List Nat) :
    List.count (a, b) (l.map fun p => (p, k)) = if b = k then List.count a l else 0 := by
  induction l with
  | nil => simp
  | cons s l ih =>
    simp only [List.map_cons, List.count_cons, ih, beq_iff_eq, Prod.mk.injEq]
    by_cases h : b = k
    · subst h; simp [eq_comm]
    · have : ¬ (k = b) := fun e => h e.symm
      simp [h, this]

theorem count_succEdges_aux (l : List Block) (k a b : Nat) :
    List.count (a, b) ((l.zipIdx k).flatMap fun x => x.1.succsN.map fun s => (x.2, s)) =
      if k ≤ a then List.count b (((l[a - k]?).map Block.succsN).getD []) else 0 := by
  induction l generalizing k with
  | nil => simp
  | cons blk l ih =>
    simp only [List.zipIdx_cons, List.flatMap_cons, List.count_append, count_map_fst, ih]
    by_cases h1 : a = k
    · subst h1
      have h5 : ¬ (a + 1 ≤ a) := by omega
      simp [h5]
    · by_cases h2 : k ≤ a
      · have h3 : k + 1 ≤ a := by omega
        have h4 : a - k = (a - (k + 1)) + 1 := by omega
        simp [h1, h2, h3, h4]
      · have h3 : ¬ (k + 1 ≤ a) := by omega
        simp [h1, h2, h3]

theorem count_predEdges_aux (l : List Block) (k a b : Nat) :
    List.count (a, b) ((l.zipIdx k).flatMap fun x => x.1.predsN.map fun p => (p, x.2)) =
      if k ≤ b then List.count a (((l[b - k]?).map Block.predsN).getD []) else 0 := by
  induction l generalizing k with
  | nil => simp
  | cons blk l ih =>
    simp only [List.zipIdx_cons, List.flatMap_cons, List.count_append, count_map_snd, ih]
    by_cases h1 : b = k
    · subst h1
      have h5 : ¬ (b + 1 ≤ b) := by omega
      simp [h5]
    · by_cases h2 : k ≤ b
      · have h3 : k + 1 ≤ b := by omega
        have h4 : b - k = (b - (k + 1)) + 1 := by omega
        simp [h1, h2, h3, h4]
      · have h3 : ¬ (k + 1 ≤ b) := by omega
        simp [h1, h2, h3]

/-- **Preds and Succs are exact mutual inverses, with multiplicity**: block `b` occurs in
`Blocks[a].Succs` exactly as often as block `a` occurs in `Blocks[b].Preds`. -/
theorem cfg_exact {f : FnDump} (h : WF f) (a b : Nat) :
    List.count b (succsAt f a) = List.count a (predsAt f b) := by
  have := h.cfg_inverse.count_eq (a, b)
  unfold succEdges predEdges at this
  rw [count_succEdges_aux f.blocks 0 a b, count_predEdges_aux f.blocks 0 a b] at this
  simpa [succsAt, predsAt] using this


/-! ### The dominance clause with explicit paths -/

/-- On an accepted dump, a non-φ instruction `use` (position `iu` of block `bu`) that has
the instruction-defined value `v` as operand `k`: the defining instruction (position `id`
of block `bd`) is a value, and it is earlier in the same block or its block is on EVERY
control-flow path from the entry to `bu`. -/
theorem def_on_every_path {f : FnDump} (h : WF f) {bu iu : Nat} {use : Instr}
    (hx : (bu, iu, use) ∈ f.flatL) (hk : use.kind ≠ .Phi) {k v : Nat}
    (hop : use.ops[k]? = some (some v)) {bd id : Nat} {d : Instr}
    (hd : f.flatL[v]? = some (bd, id, d)) :
    d.ty.isSome = true ∧
      ((bd = bu ∧ id < iu) ∨ (bd ≠ bu ∧ ∀ p, Path f.graph 0 p bu → bd ∈ p)) := by
  have := h.defs_dominate_uses _ hx k v hop
  unfold OperandOK at this
  have hlt : v < f.flat.size := by
    rw [flat_size]; exact (List.getElem?_eq_some_iff.mp hd).1
  rw [if_pos hlt, flat_get, hd] at this
  simp only [if_neg hk] at this
  exact this

/-- The same for operand `k` of a φ-node: the definition's block is on EVERY path from the
entry to the `k`-th predecessor. -/
theorem phi_def_on_every_path {f : FnDump} (h : WF f) {bu iu : Nat} {use : Instr}
    (hx : (bu, iu, use) ∈ f.flatL) (hk : use.kind = .Phi) {k v : Nat}
    (hop : use.ops[k]? = some (some v)) {bd id : Nat} {d : Instr}
    (hd : f.flatL[v]? = some (bd, id, d)) :
    d.ty.isSome = true ∧
      ∃ b pr, f.blocks[bu]? = some b ∧ b.preds[k]? = some (some pr) ∧
        ∀ p, Path f.graph 0 p pr → bd ∈ p := by
  have := h.defs_dominate_uses _ hx k v hop
  unfold OperandOK at this
  have hlt : v < f.flat.size := by
    rw [flat_size]; exact (List.getElem?_eq_some_iff.mp hd).1
  rw [if_pos hlt, flat_get, hd] at this
  simp only [if_pos hk] at this
  refine ⟨this.1, ?_⟩
  have h2 := this.2
  cases hb : f.blocks[bu]? with
  | none => simp [hb] at h2
  | some b =>
    cases hp : b.preds[k]? with
    | none => simp [hb, hp] at h2
    | some q =>
      cases q with
      | none => simp [hb, hp] at h2
      | some pr =>
        simp only [hb, hp, Option.bind_some, Option.join_some] at h2
        exact ⟨b, pr, rfl, hp, h2⟩

/-! ### Operands held in struct fields, parameters -/

/-- On an accepted dump, every value `v` held in an operand FIELD of the struct of an
instruction (found by reflection, independently of the method `Operands()`) is one of the
operands `Operands()` reports, in some slot `k`, and passes the operand clause there: it is a
legitimate non-instruction value or a value-defining instruction inside a block of the function
whose definition dominates the use — in particular it is not an instruction that is in no
block. -/
theorem field_operand_checked {f : FnDump} (h : WF f) {bu iu : Nat} {use : Instr}
    (hx : (bu, iu, use) ∈ f.flatL) {v : Nat} (hv : some v ∈ use.fops) :
    ∃ k, use.ops[k]? = some (some v) ∧ OperandOK (DomFrom f.graph 0) f f.flat bu iu use k v := by
  have hm : some v ∈ use.ops := (h.operands_complete _ hx).mem_iff.mpr hv
  obtain ⟨k, hk⟩ := List.getElem?_of_mem hm
  exact ⟨k, hk, h.defs_dominate_uses _ hx k v hk⟩

/-- … and a non-instruction value held in a field is never `dangling` / `foreign`. -/
theorem field_operand_legit {f : FnDump} (h : WF f) {bu iu : Nat} {use : Instr}
    (hx : (bu, iu, use) ∈ f.flatL) {v : Nat} (hv : some v ∈ use.fops) (hge : ¬ v < f.flat.size)
    {w : Val} (hw : f.vals[v - f.flat.size]? = some w) : w.kind.legit = true := by
  obtain ⟨k, _, hok⟩ := field_operand_checked h hx hv
  unfold OperandOK at hok
  rw [if_neg hge, hw] at hok
  exact hok

/-- `Function.Params` agree with the signature: as many as receiver + parameters, and the
`i`-th has exactly the `i`-th type (receiver first). -/
theorem params_match_signature {f : FnDump} (h : WF f) :
    f.params.length = f.sigParams.length ∧
      ∀ (i p t : Nat), f.params[i]? = some p → f.sigParams[i]? = some t → valTy f f.flat p = some t := by
  have hp := h.func_ok.params_typed
  refine ⟨by simpa using congrArg List.length hp, ?_⟩
  intro i p t hi ht
  have := congrArg (·[i]?) hp
  simpa [hi, ht] using this

/-! ### Non-vacuity

The real dump (harness/cmd/c02dump, default mode) of

    func f(n int, p *int) int { s := 0; for i := 0; i < n; i++ { s += i }; *p = s; return s }

blocks 0 entry → 1 loop header (two φ-nodes) → 2 body → 1, 1 → 3 exit.  The validator
accepts it, so it is `WF`; with one φ-edge redirected to a value defined in the loop body
along the entry edge, or the type of a φ changed, it is rejected. -/
def exF : FnDump :=
  { types := #[{ ctor := .basic, under := 0, core := some 0, flags := 2, len := 2, kids := [] },
      { ctor := .pointer, under := 1, core := some 1, flags := 0, len := 0, kids := [0] },
      { ctor := .basic, under := 2, core := some 2, flags := 1, len := 1, kids := [] }]
    vals := #[{ kind := .param, ty := some 0, refs := some [3] },
      { kind := .param, ty := some 1, refs := some [8] },
      { kind := .const, ty := some 0, refs := none },
      { kind := .const, ty := some 0, refs := none },
      { kind := .const, ty := some 0, refs := none }]
    blocks := [
      { index := some 0, preds := [], succs := [some 1], instrs := [
          { kind := .Jump, ty := none, blk := some 0, irid := 1, a := none, b := none, c := none, xs := [], ops := [], fops := [], refs := none }] },
      { index := some 1, preds := [some 0, some 2], succs := [some 2, some 3], instrs := [
          { kind := .Phi, ty := some 0, blk := some 1, irid := 2, a := none, b := none, c := none, xs := [], ops := [some 12, some 5], fops := [some 12, some 5], refs := some [5, 8, 9] },
          { kind := .Phi, ty := some 0, blk := some 1, irid := 3, a := none, b := none, c := none, xs := [], ops := [some 13, some 6], fops := [some 13, some 6], refs := some [3, 5, 6] },
          { kind := .BinOp, ty := some 2, blk := some 1, irid := 4, a := some 14, b := none, c := none, xs := [], ops := [some 2, some 10], fops := [some 2, some 10], refs := some [4] },
          { kind := .If, ty := none, blk := some 1, irid := 5, a := none, b := none, c := none, xs := [], ops := [some 3], fops := [some 3], refs := none }] },
      { index := some 2, preds := [some 1], succs := [some 1], instrs := [
          { kind := .BinOp, ty := some 0, blk := some 2, irid := 6, a := some 1, b := none, c := none, xs := [], ops := [some 1, some 2], fops := [some 1, some 2], refs := some [1] },
          { kind := .BinOp, ty := some 0, blk := some 2, irid := 7, a := some 1, b := none, c := none, xs := [], ops := [some 2, some 14], fops := [some 2, some 14], refs := some [2] },
          { kind := .Jump, ty := none, blk := some 2, irid := 8, a := none, b := none, c := none, xs := [], ops := [], fops := [], refs := none }] },
      { index := some 3, preds := [some 1], succs := [], instrs := [
          { kind := .Store, ty := none, blk := some 3, irid := 9, a := none, b := none, c := none, xs := [], ops := [some 11, some 1], fops := [some 11, some 1], refs := none },
          { kind := .Return, ty := none, blk := some 3, irid := 10, a := some 1, b := none, c := none, xs := [], ops := [some 1], fops := [some 1], refs := none }] }]
    recover := none
    results := [0]
    params := [10, 11]
    sigParams := [0, 1]
    freeVars := []
    locals := []
    naive := false }

example : wfCheck exF = true := by decide
example : WF exF := wfCheck_sound exF (by decide)
/-- the body block (2) is on every path from the entry to itself, the header (1) on every
path to the exit (3) — instances of the path statement obtained from the theorem -/
example : ∀ p, Path exF.graph 0 p 3 → 1 ∈ p :=
  ((def_on_every_path (wfCheck_sound exF (by decide)) (bu := 3) (iu := 0)
    (use := (exF.flatL.getD 8 default).2.2) (k := 1) (v := 1) (bd := 1) (id := 0)
    (d := (exF.flatL.getD 1 default).2.2)
    (by decide) (by decide) (by decide) (by decide)).2.resolve_left (by decide)).2
example : List.count 1 (succsAt exF 2) = List.count 2 (predsAt exF 1) :=
  cfg_exact (wfCheck_sound exF (by decide)) 2 1

/-- φ `s` takes the body's `s+i` (value 5) along the edge from the ENTRY: not dominated -/
def exBadDom : FnDump :=
  { exF with blocks := exF.blocks.modify 1 fun b =>
      { b with instrs := b.instrs.modify 0 fun i => { i with ops := [some 5, some 5], fops := [some 5, some 5] } } }
example : wfCheck exBadDom = false := by decide
example : (clauses exBadDom).filter (fun c => !c.2) = [("defs-dominate-uses", false)] := by decide

/-- φ `i` claims type bool -/
def exBadType : FnDump :=
  { exF with blocks := exF.blocks.modify 1 fun b =>
      { b with instrs := b.instrs.modify 1 fun i => { i with ty := some 2 } } }
example : (clauses exBadType).filter (fun c => !c.2) = [("typing", false)] := by decide

/-- the struct of the comparison `i < n` holds a third operand that `Operands()` does not
report (the shape of a forgotten field, e.g. `Slice.Max`): rejected by exactly clause 8 -/
def exBadOps : FnDump :=
  { exF with blocks := exF.blocks.modify 1 fun b =>
      { b with instrs := b.instrs.modify 2 fun i => { i with fops := [some 2, some 10, some 5] } } }
example : (clauses exBadOps).filter (fun c => !c.2) = [("operands-complete", false)] := by decide
example : ¬ WF exBadOps := fun h => absurd (wfCheck_complete _ h) (by decide)

/-- `Params` in the wrong order for the signature: rejected by exactly clause 9 -/
def exBadParams : FnDump := { exF with sigParams := [1, 0] }
example : (clauses exBadParams).filter (fun c => !c.2) = [("function", false)] := by decide
example : ¬ WF exBadParams := fun h => absurd (wfCheck_complete _ h) (by decide)

example : ∃ k : Nat, ((exF.flatL.getD 3 default).2.2).ops[k]? = some (some 2) :=
  let ⟨k, hk, _⟩ := field_operand_checked (wfCheck_sound exF (by decide)) (bu := 1) (iu := 2)
    (use := (exF.flatL.getD 3 default).2.2) (v := 2) (by decide) (by decide)
  ⟨k, hk⟩
example : exF.params.length = exF.sigParams.length :=
  (params_match_signature (wfCheck_sound exF (by decide))).1
/-- the sorting helpers on a concrete unsorted list with duplicates -/
example : msort pairLe [(3, 1), (1, 2), (3, 0), (1, 2)] = [(1, 2), (1, 2), (3, 0), (3, 1)] := by decide
example : msort pairLe [(3, 1), (1, 2), (3, 0)] = msort pairLe [(1, 2), (3, 0), (3, 1)] :=
  msort_canon pairLe pairLe_trans pairLe_total pairLe_antisymm (by decide)
example : canonSet [(3, 1), (1, 2), (3, 1)] = canonSet [(1, 2), (3, 1), (1, 2)] :=
  (canonSet_eq_iff _ _).mpr (by intro p; simp only [List.mem_cons, List.not_mem_nil, or_false]; constructor <;> (intro h; rcases h with h | h | h <;> simp [h]))
/-- dominance in the loop of `exF`: the header (1) dominates the exit (3), the body (2) does not -/
example : domX exF.graph (mkSets exF.graph) 1 3 = true := by decide
example : ¬ DomFrom exF.graph 0 2 3 :=
  fun h => absurd ((domX_iff exF.graph (mkSets exF.graph) 2 3).mpr h) (by decide)

/-- completeness used the other way round: the rejected variants are not well-formed -/
example : ¬ WF exBadDom := fun h => absurd (wfCheck_complete _ h) (by decide)
example : ¬ WF exBadType := fun h => absurd (wfCheck_complete _ h) (by decide)
example : wfCheck exF = true ↔ WF exF := wfCheck_iff exF

end Verif.C02
