/-
C02 — the validator `wfCheck : FnDump → Bool` (compiled into `c02driver`).

One Bool function per clause of `WF` (Spec.lean); `wfCheck` is their conjunction and
`clauses` the same conjunction with names (for reporting which clause failed).
Soundness (`wfCheck f = true → WF f`) is proved in Theorems.lean.
-/
import Verif.C02.Spec
namespace Verif.C02
open Verif.C14 (Graph)

/-- adjacent elements strictly increase -/
def strictAsc : List Nat → Bool
  | a :: b :: r => decide (a < b) && strictAsc (b :: r)
  | _ => true

def natLe (a b : Nat) : Bool := decide (a ≤ b)

def cShape (f : FnDump) : Bool :=
  decide (0 < f.nblocks) &&
  (f.blocks.zipIdx.all fun x => decide (BlockShape f.nblocks x.1 x.2)) &&
  (match f.recover with
   | some r => decide (r < f.nblocks)
   | none => true) &&
  strictAsc (msort natLe (f.flatL.map (·.2.2.irid)))

def cCfgInverse (f : FnDump) : Bool :=
  msort pairLe (succEdges f) == msort pairLe (predEdges f)

def cTerminators (f : FnDump) : Bool := f.blocks.all fun b => decide (TermOK b)

def cPhis (f : FnDump) : Bool := f.blocks.all fun b => decide (PhisOK b)

/-- Dominance as decided by the validator: the fast answer from the re-checked sets, and
when that says "no" the exact reference of C14 (`Verif.C14.dom`, reachability after
removal, proved exact) — so a "no" is as trustworthy as a "yes". -/
def domX (G : Graph) (sets : Array (Array Bool)) (d v : Nat) : Bool :=
  domB sets d v || Verif.C14.dom G ⟨0, none⟩ d v

/-- `OperandOK` with a Bool-valued dominance relation -/
def operandOKB (DB : Nat → Nat → Bool) (f : FnDump) (fl : Array (Nat × Nat × Instr))
    (bu iu : Nat) (use : Instr) (k v : Nat) : Bool :=
  if v < fl.size then
    match fl[v]? with
    | none => false
    | some (bd, id, d) =>
      d.ty.isSome &&
      if use.kind = .Phi then
        match (f.blocks[bu]?).bind (fun b => (b.preds[k]?).join) with
        | some p => DB bd p
        | none => false
      else (decide (bd = bu) && decide (id < iu)) || (decide (bd ≠ bu) && DB bd bu)
  else
    match f.vals[v - fl.size]? with
    | none => false
    | some w => w.kind.legit

/-- every candidate set passes the closure re-check -/
def cSets (G : Graph) (sets : Array (Array Bool)) : Bool :=
  decide (sets.size = G.size) &&
  (List.range G.size).all fun d => closedOK G d (sets.getD d #[])

def cDefUse (f : FnDump) (fl : Array (Nat × Nat × Instr)) (sets : Array (Array Bool)) : Bool :=
  f.flatL.all fun x =>
    x.2.2.ops.zipIdx.all fun ok =>
      match ok.1 with
      | none => true
      | some v => operandOKB (domX f.graph sets) f fl x.1 x.2.1 x.2.2 ok.2 v

def cRefsTracked (f : FnDump) : Bool :=
  (f.flatL.all fun x => x.2.2.refs.isSome == x.2.2.ty.isSome) &&
  (f.vals.toList.all fun w => !w.kind.legit || (w.refs.isSome == w.kind.tracked))

def cRefsInverse (f : FnDump) (fl : Array (Nat × Nat × Instr)) : Bool :=
  canonSet (usePairs f fl) == canonSet (refPairs f fl)

def cTyping (f : FnDump) (fl : Array (Nat × Nat × Instr)) : Bool :=
  let c := f.ctx fl
  f.flatL.all fun x => decide (TypeRule c x.2.2)

/-- the candidate "reachable avoiding d" sets, one per block (unverified computation) -/
def mkSets (G : Graph) : Array (Array Bool) :=
  ((List.range G.size).map (avoidSet G)).toArray

/-- The clauses with names, in the order they are reported. -/
def clauses (f : FnDump) : List (String × Bool) :=
  let fl := f.flat
  let G := f.graph
  let sets := mkSets G
  [("shape", cShape f),
   ("cfg-inverse", cCfgInverse f),
   ("terminators", cTerminators f),
   ("phis", cPhis f),
   ("dom-sets", cSets G sets),
   ("defs-dominate-uses", cDefUse f fl sets),
   ("refs-tracked", cRefsTracked f),
   ("refs-inverse", cRefsInverse f fl),
   ("typing", cTyping f fl)]

/-- **The validator.** -/
def wfCheck (f : FnDump) : Bool :=
  let fl := f.flat
  let G := f.graph
  let sets := mkSets G
  cShape f && cCfgInverse f && cTerminators f && cPhis f && cSets G sets &&
    cDefUse f fl sets && cRefsTracked f && cRefsInverse f fl && cTyping f fl

end Verif.C02
