/-
C02 — the validator `wfCheck : FnDump → Bool` (compiled into `c02driver`).

One Bool function per clause of `WF` (Spec.lean); `wfCheck` is their conjunction and
`clauses` the same conjunction with names (for reporting which clause failed).
Soundness (`wfCheck f = true → WF f`) is proved in Theorems.lean.
-/
import Verif.C02.Spec
namespace Verif.C02
open Verif.C14 (Graph)

def cShape (f : FnDump) : Bool :=
  decide (0 < f.nblocks) &&
  (f.blocks.zipIdx.all fun x => decide (BlockShape f.nblocks x.1 x.2)) &&
  (match f.recover with
   | some r => decide (r < f.nblocks)
   | none => true) &&
  strictAsc (msort natLe (f.flatL.map (·.2.2.irid)))

def cCfgInverse (f : FnDump) : Bool :=
  msort pairLe (succEdges f) == msort pairLe (predEdges f)

def cTerminators (f : FnDump) : Bool := f.blocks.all fun b => decide (TermOK b)

def cPhis (f : FnDump) : Bool := f.blocks.all fun b => decide (PhisOK b)

/-- Which candidate sets pass the closure re-check `closedOK` (entry `d` = the set computed
for block `d` is usable). -/
def vetSets (G : Graph) (sets : Array (Array Bool)) : Array Bool :=
  ((List.range G.size).map fun d => closedOK G d (sets.getD d #[])).toArray

/-- `d` dominates `v` according to the re-checked sets (a set that failed its re-check is
never consulted). -/
def domV (sets : Array (Array Bool)) (ok : Array Bool) (d v : Nat) : Bool :=
  d == v || (ok.getD d false && !(sets.getD d #[]).getD v false)

/-- Dominance as decided by the validator: the fast answer from the re-checked sets, and
when that says "no" the exact reference of C14 (`Verif.C14.dom`, reachability after
removal, proved exact) — so a "no" is as trustworthy as a "yes", whatever the unverified
search produced. -/
def domX (G : Graph) (sets : Array (Array Bool)) (d v : Nat) : Bool :=
  domV sets (vetSets G sets) d v || Verif.C14.dom G ⟨0, none⟩ d v

/-- the same with the vetting table computed once -/
def domXk (G : Graph) (sets : Array (Array Bool)) (ok : Array Bool) (d v : Nat) : Bool :=
  domV sets ok d v || Verif.C14.dom G ⟨0, none⟩ d v

/-- `OperandOK` with a Bool-valued dominance relation -/
def operandOKB (DB : Nat → Nat → Bool) (f : FnDump) (fl : Array (Nat × Nat × Instr))
    (bu iu : Nat) (use : Instr) (k v : Nat) : Bool :=
  if v < fl.size then
    match fl[v]? with
    | none => false
    | some (bd, id, d) =>
      d.ty.isSome &&
      if use.kind = .Phi then
        match (f.blocks[bu]?).bind (fun b => (b.preds[k]?).join) with
        | some p => DB bd p
        | none => false
      else (decide (bd = bu) && decide (id < iu)) || (decide (bd ≠ bu) && DB bd bu)
  else
    match f.vals[v - fl.size]? with
    | none => false
    | some w => w.kind.legit

/-- every candidate set passes the closure re-check (diagnostic only: `domX` never trusts a
set that fails it) -/
def cSets (G : Graph) (sets : Array (Array Bool)) : Bool :=
  decide (sets.size = G.size) &&
  (List.range G.size).all fun d => closedOK G d (sets.getD d #[])

def cDefUse (f : FnDump) (fl : Array (Nat × Nat × Instr)) (sets : Array (Array Bool)) : Bool :=
  let ok := vetSets f.graph sets
  f.flatL.all fun x =>
    x.2.2.ops.zipIdx.all fun o =>
      match o.1 with
      | none => true
      | some v => operandOKB (domXk f.graph sets ok) f fl x.1 x.2.1 x.2.2 o.2 v

def cRefsTracked (f : FnDump) : Bool :=
  (f.flatL.all fun x => x.2.2.refs.isSome == x.2.2.ty.isSome) &&
  (f.vals.toList.all fun w => !w.kind.legit || (w.refs.isSome == w.kind.tracked))

def cRefsInverse (f : FnDump) (fl : Array (Nat × Nat × Instr)) : Bool :=
  canonSet (usePairs f fl) == canonSet (refPairs f fl)

def cTyping (f : FnDump) (fl : Array (Nat × Nat × Instr)) : Bool :=
  let c := f.ctx fl
  f.flatL.all fun x => decide (TypeRule c x.2.2)

/-- `Operands()` and the operand-holding fields of the struct agree as multisets -/
def cOperandsComplete (f : FnDump) : Bool :=
  f.flatL.all fun x => x.2.2.ops == x.2.2.fops || x.2.2.ops.isPerm x.2.2.fops

def cFunc (f : FnDump) : Bool := decide (FuncOK f)

/-- the candidate "reachable avoiding d" sets, one per block (unverified computation) -/
def mkSets (G : Graph) : Array (Array Bool) :=
  ((List.range G.size).map (avoidSet G)).toArray

/-- The clauses with names, in the order they are reported (`sets`: the candidate sets). -/
def clausesS (f : FnDump) (sets : Array (Array Bool)) : List (String × Bool) :=
  let fl := f.flat
  [("shape", cShape f),
   ("cfg-inverse", cCfgInverse f),
   ("terminators", cTerminators f),
   ("phis", cPhis f),
   ("defs-dominate-uses", cDefUse f fl sets),
   ("refs-tracked", cRefsTracked f),
   ("refs-inverse", cRefsInverse f fl),
   ("typing", cTyping f fl),
   ("operands-complete", cOperandsComplete f),
   ("function", cFunc f)]

def clauses (f : FnDump) : List (String × Bool) := clausesS f (mkSets f.graph)

/-- **The validator.** -/
def wfCheck (f : FnDump) : Bool :=
  let fl := f.flat
  let G := f.graph
  let sets := mkSets G
  cShape f && cCfgInverse f && cTerminators f && cPhis f &&
    cDefUse f fl sets && cRefsTracked f && cRefsInverse f fl && cTyping f fl &&
    cOperandsComplete f && cFunc f

end Verif.C02
