/-
C02 driver: one dumped function per line (format: harness/internal/c02ir/dump.go).

  chk <nblocks> <ninstr> <nvals> <ntypes> <recover|-|x> <nres> <res tid>...
      <nparams> <vid>... <nsig> <tid>... <nfree> <vid>... <nlocals> <iid|->... <naive 0|1> T … V … B … I …

  kinds        → every instruction kind of the model, `Name:typed|untyped`

Output:  `ok <stats>`  when the proved validator `wfCheck` accepts, otherwise
`fail:<clause>[,<clause>…] <stats> | <details>`; `bad-op` for a malformed line (also for an
instruction / type / value kind this model does not know: a new kind in go/ir must be
added to the model and the typing table before anything is validated).
Every answer ends in ` # h=<hash of the input line>` (used to count distinct cases).
stats: `nb=` blocks, `ni=` instructions, `phi=` φ-nodes, `xuse=` operand slots whose
definition is in another block, `typed=` instructions whose kind has a typing row, `unreach=` blocks not reachable from the
entry in `f.graph` (their uses are vacuously dominated), `vetbad=` candidate sets of the unverified
search that failed their re-check (the exact reference decided instead), `reordered=` instructions
whose `Operands()` and struct fields agree only as multisets.
Details are produced by unverified reporting code; they name the first offending
instruction / pair so that the finding can be confirmed by hand on the dump.
-/
import Verif.Common.Proto
import Verif.C02.Check
namespace Verif.C02
open Verif.Proto

abbrev P := StateT (List String) Option

def tok : P String := fun s =>
  match s with
  | t :: r => some (t, r)
  | [] => none

def pNat : P Nat := do
  let t ← tok
  match t.toNat? with
  | some n => pure n
  | none => failure

def pOpt : P (Option Nat) := do
  let t ← tok
  if t = "-" then pure none else
  match t.toNat? with
  | some n => pure (some n)
  | none => failure

def pExpect (s : String) : P Unit := do
  let t ← tok
  if t = s then pure () else failure

def pMany {α : Type} (n : Nat) (p : P α) : P (List α) := do
  let mut acc : Array α := #[]
  for _ in [0:n] do
    acc := acc.push (← p)
  pure acc.toList

def pList {α : Type} (p : P α) : P (List α) := do
  let n ← pNat
  pMany n p

def pRefs : P (Option (List Nat)) := fun s =>
  match s with
  | "~" :: r => some (none, r)
  | _ => (do let l ← pList pNat; pure (some l) : P _) s

def parseKind : String → Option Kind
  | "Alloc" => some .Alloc | "Phi" => some .Phi | "Call" => some .Call | "BinOp" => some .BinOp
  | "UnOp" => some .UnOp | "Load" => some .Load | "ChangeType" => some .ChangeType
  | "Convert" => some .Convert | "MultiConvert" => some .MultiConvert
  | "ChangeInterface" => some .ChangeInterface | "SliceToArrayPointer" => some .SliceToArrayPointer
  | "SliceToArray" => some .SliceToArray | "MakeInterface" => some .MakeInterface
  | "MakeClosure" => some .MakeClosure | "MakeMap" => some .MakeMap | "MakeChan" => some .MakeChan
  | "MakeSlice" => some .MakeSlice | "Slice" => some .Slice | "FieldAddr" => some .FieldAddr
  | "Field" => some .Field | "IndexAddr" => some .IndexAddr | "Index" => some .Index
  | "MapLookup" => some .MapLookup | "StringLookup" => some .StringLookup | "Select" => some .Select
  | "Range" => some .Range | "Next" => some .Next | "TypeAssert" => some .TypeAssert
  | "Extract" => some .Extract | "Jump" => some .Jump | "Unreachable" => some .Unreachable
  | "If" => some .If | "ConstantSwitch" => some .ConstantSwitch | "TypeSwitch" => some .TypeSwitch
  | "Return" => some .Return | "RunDefers" => some .RunDefers | "Panic" => some .Panic
  | "Go" => some .Go | "Defer" => some .Defer | "Send" => some .Send | "Recv" => some .Recv
  | "Store" => some .Store | "BlankStore" => some .BlankStore | "MapUpdate" => some .MapUpdate
  | "DebugRef" => some .DebugRef | "CompositeValue" => some .CompositeValue
  | _ => none

def parseCtor : String → Option Ctor
  | "basic" => some .basic | "pointer" => some .pointer | "slice" => some .slice
  | "array" => some .array | "map" => some .map | "chan" => some .chan | "struct" => some .strct
  | "tuple" => some .tuple | "signature" => some .signature | "interface" => some .iface
  | "named" => some .named | "typeparam" => some .typeparam | "iterator" => some .iterator
  | "deferstack" => some .deferstack | "other" => some .other
  | _ => none

def parseVKind : String → Option VKind
  | "param" => some .param | "freevar" => some .freevar | "const" => some .const
  | "aggconst" => some .aggconst | "global" => some .global | "builtin" => some .builtin
  | "function" => some .function | "anonfunc" => some .anonfunc | "dangling" => some .dangling
  | "foreign" => some .foreign | "other" => some .other
  | _ => none

def pVia {α : Type} (f : String → Option α) : P α := do
  let t ← tok
  match f t with
  | some k => pure k
  | none => failure

def pType : P TypeEntry := do
  let ctor ← pVia parseCtor
  let under ← pNat
  let core ← pOpt
  let flags ← pNat
  let len ← pNat
  let kids ← pList pNat
  pure { ctor, under, core, flags, len, kids }

def pVal : P Val := do
  let kind ← pVia parseVKind
  let ty ← pOpt
  let refs ← pRefs
  pure { kind, ty, refs }

def pInstr : P Instr := do
  let kind ← pVia parseKind
  let ty ← pOpt
  let blk ← pOpt
  let irid ← pNat
  let a ← pOpt
  let b ← pOpt
  let c ← pOpt
  let xs ← pList pOpt
  let ops ← pList pOpt
  let fops ← pList pOpt
  let refs ← pRefs
  pure { kind, ty, blk, irid, a, b, c, xs, ops, fops, refs }

/-- a block header: Index, Preds, Succs, number of instructions -/
def pBlockHead : P (Option Nat × List (Option Nat) × List (Option Nat) × Nat) := do
  let index ← pOpt
  let preds ← pList pOpt
  let succs ← pList pOpt
  let n ← pNat
  pure (index, preds, succs, n)

def splitInstrs : List (Option Nat × List (Option Nat) × List (Option Nat) × Nat) → List Instr →
    Option (List Block)
  | [], [] => some []
  | [], _ :: _ => none
  | (index, preds, succs, n) :: r, is =>
    if is.length < n then none else
    match splitInstrs r (is.drop n) with
    | some bs => some ({ index, preds, succs, instrs := is.take n } :: bs)
    | none => none

def pCase : P FnDump := do
  let nb ← pNat
  let m ← pNat
  let nv ← pNat
  let nt ← pNat
  let rt ← tok
  let recover ← (if rt = "-" then pure none else if rt = "x" then pure (some nb) else
    match rt.toNat? with
    | some r => pure (some r)
    | none => failure : P (Option Nat))
  let results ← pList pNat
  let params ← pList pNat
  let sigParams ← pList pNat
  let freeVars ← pList pNat
  let locals ← pList pOpt
  let nai ← pNat
  if nai > 1 then failure
  pExpect "T"
  let types ← pMany nt pType
  pExpect "V"
  let vals ← pMany nv pVal
  pExpect "B"
  let heads ← pMany nb pBlockHead
  pExpect "I"
  let instrs ← pMany m pInstr
  match splitInstrs heads instrs with
  | some blocks =>
    pure { types := types.toArray, vals := vals.toArray, blocks, recover, results, params, sigParams,
           freeVars, locals, naive := nai == 1 }
  | none => failure

def parseCase (ts : List String) : Option FnDump :=
  match pCase ts with
  | some (f, []) => some f
  | _ => none

/-! ### Unverified reporting -/

def showOpt (o : Option Nat) : String :=
  match o with
  | some n => toString n
  | none => "-"

def kindName (k : Kind) : String := (reprStr k).replace "Verif.C02.Kind." ""
def vkName (k : VKind) : String := (reprStr k).replace "Verif.C02.VKind." ""

/-- first element of `a` that is not in `b` (both sorted canonical sets) -/
def firstMissing (a b : List (Nat × Nat)) : Option (Nat × Nat) := a.find? fun p => !b.contains p

def details (f : FnDump) (clause : String) : String :=
  let fl := f.flat
  if clause = "defs-dominate-uses" then
    let sets := mkSets f.graph
    match f.flatL.zipIdx.findSome? (fun (x, u) =>
      x.2.2.ops.zipIdx.findSome? fun (o, k) =>
        match o with
        | none => none
        | some v =>
          if operandOKB (domX f.graph sets) f fl x.1 x.2.1 x.2.2 k v then none else
          let d := match fl[v]? with
            | some (bd, id, di) => s!"def=i{v}:{kindName di.kind}@b{bd}.{id}"
            | none => s!"def=v{v}:{match f.vals[v - fl.size]? with | some w => vkName w.kind | none => "?"}"
          some s!"use=i{u}:{kindName x.2.2.kind}@b{x.1}.{x.2.1} operand#{k} {d}") with
    | some s => s
    | none => ""
  else if clause = "typing" then
    let c := f.ctx fl
    match f.flatL.zipIdx.find? (fun (x, _) => !decide (TypeRule c x.2.2)) with
    | some (x, u) =>
      let tys := x.2.2.ops.map fun o => showOpt (c.oty o)
      s!"i{u}:{kindName x.2.2.kind}@b{x.1}.{x.2.1} type={showOpt x.2.2.ty} optypes={tys} a={showOpt x.2.2.a} b={showOpt x.2.2.b} c={showOpt x.2.2.c}"
    | none => ""
  else if clause = "refs-inverse" then
    let a := canonSet (usePairs f fl)
    let b := canonSet (refPairs f fl)
    match firstMissing a b, firstMissing b a with
    | some (v, i), _ => s!"value {v} is an operand of i{i} but i{i} is not in its referrers"
    | _, some (v, i) => s!"value {v} lists referrer {i} but is not an operand of it"
    | _, _ => ""
  else if clause = "cfg-inverse" then
    let a := msort pairLe (succEdges f)
    let b := msort pairLe (predEdges f)
    s!"succ-edges={a.take 40} pred-edges={b.take 40}"
  else if clause = "terminators" then
    match f.blocks.zipIdx.find? (fun (b, _) => !decide (TermOK b)) with
    | some (b, i) => s!"block {i}: kinds={(b.instrs.map fun x => kindName x.kind).drop (b.instrs.length - 4)} nsuccs={b.succs.length}"
    | none => ""
  else if clause = "phis" then
    match f.blocks.zipIdx.find? (fun (b, _) => !decide (PhisOK b)) with
    | some (b, i) => s!"block {i}: npreds={b.preds.length} preds={b.preds.map showOpt} phi-arity={(b.instrs.filter (·.kind == .Phi)).map (·.ops.length)}"
    | none => ""
  else if clause = "shape" then
    match f.blocks.zipIdx.find? (fun (b, i) => !decide (BlockShape f.nblocks b i)) with
    | some (b, i) => s!"block {i}: Index={showOpt b.index} ninstr={b.instrs.length} preds={b.preds.map showOpt} succs={b.succs.map showOpt} instr.Block()={(b.instrs.map fun x => showOpt x.blk).take 8}"
    | none => s!"recover={showOpt f.recover} nblocks={f.nblocks} ids-distinct={strictAsc (msort natLe (f.flatL.map (·.2.2.irid)))}"
  else if clause = "operands-complete" then
    match f.flatL.zipIdx.find? (fun (x, _) => !(x.2.2.ops == x.2.2.fops || x.2.2.ops.isPerm x.2.2.fops)) with
    | some (x, u) =>
      let showV := fun (o : Option Nat) =>
        match o with
        | none => "-"
        | some v => if v < fl.size then s!"i{v}" else
          s!"v{v}:{match f.vals[v - fl.size]? with | some w => vkName w.kind | none => "?"}"
      let miss := x.2.2.fops.filter fun o => x.2.2.fops.count o != x.2.2.ops.count o
      s!"i{u}:{kindName x.2.2.kind}@b{x.1}.{x.2.1} Operands()={x.2.2.ops.map showV} struct-fields={x.2.2.fops.map showV} differing={miss.map showV}"
    | none => ""
  else if clause = "function" then
    let pk := fun (k : VKind) (l : List Nat) => decide (ListedOK f fl k l)
    s!"params-listed={pk .param f.params} params={f.params.map (valTy f fl)} signature={f.sigParams} freevars-listed={pk .freevar f.freeVars} locals={f.locals.map showOpt} naive={f.naive} locals-ok={decide (∀ l ∈ f.locals, LocalOK f.naive fl l)} locals-distinct={decide (f.locals.filterMap id).Nodup}"
  else if clause = "refs-tracked" then
    match f.flatL.zipIdx.find? (fun (x, _) => x.2.2.refs.isSome != x.2.2.ty.isSome) with
    | some (x, u) => s!"i{u}:{kindName x.2.2.kind} value={x.2.2.ty.isSome} referrers-defined={x.2.2.refs.isSome}"
    | none =>
      match f.vals.toList.zipIdx.find? (fun (w, _) => w.kind.legit && (w.refs.isSome != w.kind.tracked)) with
      | some (w, j) => s!"v{fl.size + j}:{vkName w.kind} referrers-defined={w.refs.isSome}"
      | none => ""
  else ""

def check (f : FnDump) : String :=
  let G := f.graph
  let sets := mkSets G
  let cl := clausesS f sets
  -- `(clauses f).all (·.2) = wfCheck f` is theorem `wfCheck_eq_clauses` (and `clauses f` is
  -- `clausesS f (mkSets f.graph)` by definition); evaluating the named list once avoids
  -- running every clause twice
  let v := cl.all (·.2)
  let bad := (cl.filter (fun p => !p.2)).map (·.1)
  let fl := f.flatL
  let fa := fl.toArray
  let phis := (fl.filter fun x => x.2.2.kind == .Phi).length
  let typed := (fl.filter fun x => typedKinds.contains x.2.2.kind).length
  let xuse := (fl.map fun x =>
    (x.2.2.ops.filter fun o =>
      match o with
      | some v => (match fa[v]? with | some (bd, _, _) => bd != x.1 | none => false)
      | none => false).length).foldl (· + ·) 0
  let reach := avoidGo G G.size G.size (G.size + edgeCount G + 2) [0] (Array.replicate G.size false)
  let unreach := ((List.range G.size).filter fun b => !reach.getD b false).length
  let vetbad := ((vetSets G sets).toList.filter (!·)).length
  let fdiff := (fl.filter fun x => x.2.2.ops != x.2.2.fops).length
  let stats := s!"nb={f.nblocks} ni={fl.length} phi={phis} xuse={xuse} typed={typed} unreach={unreach} vetbad={vetbad} reordered={fdiff}"
  if v && bad.isEmpty then s!"ok {stats}"
  else if v || bad.isEmpty then s!"fail:clauses-disagree {stats}"
  else
    let det := " ; ".intercalate (bad.map fun c => s!"[{c}] {details f c}")
    s!"fail:{",".intercalate bad} {stats} | {det}"

def step (line : String) : String :=
  match tokens line with
  | "chk" :: ts =>
    match parseCase ts with
    | some f => s!"{check f} # h={line.hash}"
    | none => "bad-op"
  | ["kinds"] =>
    " ".intercalate (allKinds.map fun k => kindName k ++ (if typedKinds.contains k then ":typed" else ":untyped"))
  | _ => "bad-op"

end Verif.C02
