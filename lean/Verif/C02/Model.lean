/-
C02 — built IR is well-formed, strictly dominated, consistently typed SSA.

Model (core Lean only, compiled into `c02driver`):

* `FnDump`     what `harness/cmd/c02dump` writes for one built function through the
               exported go/ir API: blocks (Index, Preds, Succs), instructions (concrete
               kind, Type(), Block(), ID(), Operands() in API order, Referrers(), a few
               exported fields), non-instruction values, a table of the types involved.
* value ids    instruction `k` (in block order) has id `k`; non-instruction value `j` has
               id `ninstr + j`.
* `msort`, `squash`   fuel-based merge sort (reduces in the kernel, unlike `List.mergeSort`)
               and duplicate squashing; proved to be a permutation, sorted and canonical
               (`msort_perm`, `msort_sorted`, `msort_canon`, `canonSet_eq_iff`), Sorting.lean.
* `avoidSet`   array DFS — an *unverified helper*: each candidate set is used only if it
               passes the re-check `closedOK` (`vetSets`), otherwise the exact reference
               `Verif.C14.dom` decides.
* clause checkers `cShape … cTyping`, `wfCheck` = their conjunction.

The declarative specification `WF` and the soundness theorem are in Spec.lean /
Theorems.lean.  The typing rules (`TypeRule`) are stated here because they are decidable
propositions evaluated by `decide` (the checker *is* the rule).
-/
import Verif.C14.Dom
namespace Verif.C02
open Verif.C14 (Graph)

/-! ### The dump -/

/-- Concrete instruction types of go/ir (ssa.go). -/
inductive Kind
  | Alloc | Phi | Call | BinOp | UnOp | Load | ChangeType | Convert | MultiConvert
  | ChangeInterface | SliceToArrayPointer | SliceToArray | MakeInterface | MakeClosure
  | MakeMap | MakeChan | MakeSlice | Slice | FieldAddr | Field | IndexAddr | Index
  | MapLookup | StringLookup | Select | Range | Next | TypeAssert | Extract
  | Jump | Unreachable | If | ConstantSwitch | TypeSwitch | Return | RunDefers | Panic
  | Go | Defer | Send | Recv | Store | BlankStore | MapUpdate | DebugRef | CompositeValue
deriving DecidableEq, Repr, Inhabited

/-- Constructors of go/types types (plus the two go-tools extension types). -/
inductive Ctor
  | basic | pointer | slice | array | map | chan | strct | tuple | signature | iface
  | named | typeparam | iterator | deferstack | other
deriving DecidableEq, Repr, Inhabited

/-- Kinds of non-instruction values.  `dangling`: an instruction that is in no block of
the function; `foreign`: a Parameter / FreeVar / anonymous Function of another function. -/
inductive VKind
  | param | freevar | const | aggconst | global | builtin | function | anonfunc
  | dangling | foreign | other
deriving DecidableEq, Repr, Inhabited

structure TypeEntry where
  ctor : Ctor
  under : Nat
  core : Option Nat
  flags : Nat
  len : Nat
  kids : List Nat
deriving Repr, Inhabited, DecidableEq

structure Val where
  kind : VKind
  ty : Option Nat
  /-- `Referrers()`; `none` = the API returned nil (value not tracked) -/
  refs : Option (List Nat)
deriving Repr, Inhabited, DecidableEq

structure Instr where
  kind : Kind
  /-- `Type()` if the instruction is a Value -/
  ty : Option Nat
  /-- `Block().Index` (none: nil or a block of another function) -/
  blk : Option Nat
  /-- `ID()` -/
  irid : Nat
  a : Option Nat
  b : Option Nat
  c : Option Nat
  xs : List (Option Nat)
  /-- `Operands()`, `none` = nil operand -/
  ops : List (Option Nat)
  /-- the operands the STRUCT of the instruction holds (every field of static type `ir.Value`,
  through nested structs and slices, by reflection — independent of the `Operands()` method) -/
  fops : List (Option Nat)
  refs : Option (List Nat)
deriving Repr, Inhabited, DecidableEq

structure Block where
  /-- the `Index` field -/
  index : Option Nat
  /-- `none` = nil or a block of another function -/
  preds : List (Option Nat)
  succs : List (Option Nat)
  instrs : List Instr
deriving Repr, Inhabited, DecidableEq

structure FnDump where
  types : Array TypeEntry
  vals : Array Val
  blocks : List Block
  /-- `Function.Recover` (an index ≥ number of blocks encodes "not in Blocks") -/
  recover : Option Nat
  /-- result types of the signature -/
  results : List Nat
  /-- `Function.Params` (value ids) -/
  params : List Nat
  /-- receiver type (if the signature has a receiver), then the types of `Signature.Params()` -/
  sigParams : List Nat
  /-- `Function.FreeVars` (value ids) -/
  freeVars : List Nat
  /-- `Function.Locals` (instruction ids; `none` = an Alloc that is in no block of the function) -/
  locals : List (Option Nat)
  /-- built with `ir.NaiveForm` (no lifting) -/
  naive : Bool
deriving Repr, Inhabited

namespace FnDump

def nblocks (f : FnDump) : Nat := f.blocks.length

/-- All instructions in block order with their position: `(block, index in block, instr)`.
The `k`-th entry is the instruction with value id `k`. -/
def flatL (f : FnDump) : List (Nat × Nat × Instr) :=
  f.blocks.zipIdx.flatMap fun (b, bi) => b.instrs.zipIdx.map fun (ins, ii) => (bi, ii, ins)

def flat (f : FnDump) : Array (Nat × Nat × Instr) := f.flatL.toArray

end FnDump

def Block.succsN (b : Block) : List Nat := b.succs.filterMap id
def Block.predsN (b : Block) : List Nat := b.preds.filterMap id

/-- The control-flow graph dominance is taken over: the Succs lists, plus one virtual edge
from the entry block to the Recover block (control reaches Recover only after a panic
inside the function, i.e. after the entry block was entered). -/
def FnDump.graph (f : FnDump) : Graph :=
  ⟨f.blocks.zipIdx.map fun (b, i) => b.succsN ++ (if i = 0 then f.recover.toList else [])⟩

/-! ### Unverified helpers (their results are re-checked) -/

section Sorting
variable {α : Type}

/-- merge with an accumulator; out of fuel: append the rest (still a permutation). -/
def mergeTR (le : α → α → Bool) : Nat → List α → List α → List α → List α
  | 0, xs, ys, acc => acc.reverseAux (xs ++ ys)
  | _ + 1, [], ys, acc => acc.reverseAux ys
  | _ + 1, xs, [], acc => acc.reverseAux xs
  | f + 1, x :: xs, y :: ys, acc =>
    if le x y then mergeTR le f xs (y :: ys) (x :: acc) else mergeTR le f (x :: xs) ys (y :: acc)

def mergePairsTR (le : α → α → Bool) : List (List α) → List (List α) → List (List α)
  | a :: b :: r, acc => mergePairsTR le r (mergeTR le (a.length + b.length) a b [] :: acc)
  | [a], acc => a :: acc
  | [], acc => acc

def mergeAll (le : α → α → Bool) : Nat → List (List α) → List α
  | 0, ls => ls.flatten
  | _ + 1, [] => []
  | _ + 1, [a] => a
  | f + 1, a :: b :: r => mergeAll le f (mergePairsTR le (a :: b :: r) [])

/-- bottom-up merge sort (fuel = length + 1 rounds is more than enough). -/
def msort (le : α → α → Bool) (l : List α) : List α :=
  mergeAll le (l.length + 1) (l.map fun x => [x])

/-- drop adjacent duplicates; the result is accumulated in reverse order. -/
def squashAux [BEq α] : List α → List α → List α
  | [], acc => acc
  | a :: r, [] => squashAux r [a]
  | a :: r, b :: acc => if a == b then squashAux r (b :: acc) else squashAux r (a :: b :: acc)

def squash [BEq α] (l : List α) : List α := squashAux l []

end Sorting

/-- adjacent elements strictly increase -/
def strictAsc : List Nat → Bool
  | a :: b :: r => decide (a < b) && strictAsc (b :: r)
  | _ => true

def natLe (a b : Nat) : Bool := decide (a ≤ b)

def pairLe (x y : Nat × Nat) : Bool := x.1 < y.1 || (x.1 == y.1 && x.2 ≤ y.2)

/-- the set of (pairs as sorted duplicate-free list, reversed) -/
def canonSet (l : List (Nat × Nat)) : List (Nat × Nat) := squash (msort pairLe l)

/-- Worklist DFS from block 0 that never enters `d`; `vis[u]` = reached. -/
def avoidGo (G : Graph) (n d : Nat) : Nat → List Nat → Array Bool → Array Bool
  | 0, _, vis => vis
  | _ + 1, [], vis => vis
  | f + 1, x :: st, vis =>
    if x == d || vis.getD x false || n ≤ x then avoidGo G n d f st vis
    else avoidGo G n d f (G.succs x ++ st) (vis.setIfInBounds x true)

def edgeCount (G : Graph) : Nat := (G.succ.map List.length).foldl (· + ·) 0

/-- Blocks reachable from the entry without passing through `d` (unverified). -/
def avoidSet (G : Graph) (d : Nat) : Array Bool :=
  avoidGo G G.size d (G.size + edgeCount G + 2) [0] (Array.replicate G.size false)

/-- Re-check of a candidate set `S` for "reachable from 0 avoiding `d`": it contains the
entry (unless the entry is `d`) and is closed under successors other than `d`. -/
def closedOK (G : Graph) (d : Nat) (S : Array Bool) : Bool :=
  (d == 0 || S.getD 0 false) &&
  (List.range G.size).all fun u =>
    !S.getD u false || (G.succs u).all fun w => w == d || S.getD w false

/-! ### Lookups -/

def isTerminator : Kind → Bool
  | .Jump | .If | .Return | .Panic | .Unreachable | .ConstantSwitch => true
  | _ => false

/-- number of successors a terminator must have -/
def termArity (i : Instr) : Option Nat :=
  match i.kind with
  | .Jump => some 1
  | .If => some 2
  | .Return | .Panic | .Unreachable => some 0
  | .ConstantSwitch => i.a
  | _ => none

def VKind.legit : VKind → Bool
  | .param | .freevar | .const | .aggconst | .global | .builtin | .function | .anonfunc => true
  | _ => false

/-- kinds of values for which `Referrers()` is documented to be defined -/
def VKind.tracked : VKind → Bool
  | .param | .freevar | .anonfunc => true
  | _ => false

/-- `Referrers()` of value `v` (instruction or not); `none` = untracked or no such value. -/
def refsOf (f : FnDump) (fl : Array (Nat × Nat × Instr)) (v : Nat) : Option (List Nat) :=
  if v < fl.size then (fl[v]?).bind (·.2.2.refs) else (f.vals[v - fl.size]?).bind (·.refs)

def valTy (f : FnDump) (fl : Array (Nat × Nat × Instr)) (v : Nat) : Option Nat :=
  if v < fl.size then (fl[v]?).bind (·.2.2.ty) else (f.vals[v - fl.size]?).bind (·.ty)

/-! ### Typing rules (table driven: one row per instruction kind) -/

/-- What a typing rule may look at. -/
structure Ctx where
  types : Array TypeEntry
  /-- `Type()` of a value id -/
  vty : Nat → Option Nat
  /-- kind of the defining instruction of a value id -/
  ikind : Nat → Option Kind
  /-- kind of a non-instruction value id -/
  vkind : Nat → Option VKind
  /-- result types of the function's signature -/
  results : List Nat

def FnDump.ctx (f : FnDump) (fl : Array (Nat × Nat × Instr)) : Ctx :=
  { types := f.types
    vty := valTy f fl
    ikind := fun v => (fl[v]?).map (·.2.2.kind)
    vkind := fun v => if v < fl.size then none else (f.vals[v - fl.size]?).map (·.kind)
    results := f.results }

namespace Ctx
variable (c : Ctx)

def ent (t : Option Nat) : Option TypeEntry := t.bind (c.types[·]?)
def under (t : Option Nat) : Option Nat := (c.ent t).map (·.under)
def core (t : Option Nat) : Option Nat := (c.ent t).bind (·.core)
def ctor (t : Option Nat) : Option Ctor := (c.ent t).map (·.ctor)
def kids (t : Option Nat) : List Nat := ((c.ent t).map (·.kids)).getD []
def kid (t : Option Nat) (k : Nat) : Option Nat := (c.kids t)[k]?
def len (t : Option Nat) : Option Nat := (c.ent t).map (·.len)
/-- constructor / child of the core type -/
def cctor (t : Option Nat) : Option Ctor := c.ctor (c.core t)
def ckid (t : Option Nat) (k : Nat) : Option Nat := c.kid (c.core t) k
def flag (t : Option Nat) (bit : Nat) : Bool :=
  match c.ent t with
  | some e => e.flags / bit % 2 == 1
  | none => false

/-- type of an operand slot -/
def oty (o : Option Nat) : Option Nat := o.bind c.vty
end Ctx

/-- flag bits of `TypeEntry.flags` (go/types BasicInfo, then harness bits) -/
def fBool : Nat := 1
def fInteger : Nat := 2
def fString : Nat := 32
def fHasTParam : Nat := 32768
def fFloat : Nat := 8
def fComplex : Nat := 16
def fUnsafePtr : Nat := 4096

namespace Ctx
variable (c : Ctx)
/-- both defined and identical -/
def same (a b : Option Nat) : Prop := a.isSome = true ∧ a = b
def isBool (t : Option Nat) : Prop := c.ctor (c.under t) = some .basic ∧ c.flag (c.under t) fBool = true
def isInt (t : Option Nat) : Prop := c.ctor (c.under t) = some .basic ∧ c.flag (c.under t) fInteger = true
def isStr (t : Option Nat) : Prop := c.ctor (c.under t) = some .basic ∧ c.flag (c.under t) fString = true
def hasTP (t : Option Nat) : Prop := c.flag t fHasTParam = true
/-- integer, or mentions a type parameter -/
def isIntTP (t : Option Nat) : Prop := c.isInt t ∨ c.hasTP t
def isIface (t : Option Nat) : Prop := c.ctor (c.under t) = some .iface
/-- a `(T, bool)` pair -/
def isPair (t e : Option Nat) : Prop :=
  c.ctor t = some .tuple ∧ (c.kids t).length = 2 ∧ same (c.kid t 0) e ∧ c.isBool (c.kid t 1)

/-- real numeric (integer or floating point) basic type, possibly named -/
def isReal (t : Option Nat) : Prop :=
  c.ctor (c.under t) = some .basic ∧ (c.flag (c.under t) fInteger = true ∨ c.flag (c.under t) fFloat = true)
def isComplex (t : Option Nat) : Prop := c.ctor (c.under t) = some .basic ∧ c.flag (c.under t) fComplex = true
def isUnsafePtr (t : Option Nat) : Prop := c.ctor (c.under t) = some .basic ∧ c.flag (c.under t) fUnsafePtr = true
/-- `uintptr` (types.Uintptr = 12) -/
def isUintptr (t : Option Nat) : Prop := c.ctor (c.under t) = some .basic ∧ c.len (c.under t) = some 12
/-- slice whose element's underlying type is byte (types.Uint8 = 8) or rune (types.Int32 = 5) -/
def isBytesOrRunes (t : Option Nat) : Prop :=
  c.ctor (c.under t) = some .slice ∧ c.ctor (c.under (c.kid (c.under t) 0)) = some .basic ∧
    (c.len (c.under (c.kid (c.under t) 0)) = some 8 ∨ c.len (c.under (c.kid (c.under t) 0)) = some 5)

/-- constructors whose identity is decided by their components (not named / basic / interface /
type parameter: for those identical = same class) -/
def structural : Ctor → Bool
  | .pointer | .slice | .array | .map | .chan | .strct | .tuple | .signature => true
  | _ => false

/-- identical up to what `types.IdenticalIgnoreTags` ignores: the same class, or the same
structural constructor and length with pairwise equivalent components (struct tags are not part
of the table, field names are not compared; out of fuel: same constructor).  An approximation
from above of `IdenticalIgnoreTags` that is exact on classes. -/
def eqvN : Nat → Nat → Nat → Bool
  | 0, a, b => a == b || (c.types[a]?).map (·.ctor) == (c.types[b]?).map (·.ctor)
  | f + 1, a, b =>
    a == b ||
      match c.types[a]?, c.types[b]? with
      | some ea, some eb =>
        ea.ctor == eb.ctor && structural ea.ctor && ea.len == eb.len &&
          ea.kids.length == eb.kids.length && (ea.kids.zip eb.kids).all fun p => eqvN f p.1 p.2
      | _, _ => false

def eqv (a b : Option Nat) : Prop :=
  match a, b with
  | some a, some b => c.eqvN 4 a b = true
  | _, _ => False

instance (a b : Option Nat) : Decidable (same a b) := by unfold same; infer_instance
instance (t : Option Nat) : Decidable (c.isReal t) := by unfold isReal; infer_instance
instance (t : Option Nat) : Decidable (c.isComplex t) := by unfold isComplex; infer_instance
instance (t : Option Nat) : Decidable (c.isUnsafePtr t) := by unfold isUnsafePtr; infer_instance
instance (t : Option Nat) : Decidable (c.isUintptr t) := by unfold isUintptr; infer_instance
instance (t : Option Nat) : Decidable (c.isBytesOrRunes t) := by unfold isBytesOrRunes; infer_instance
instance (a b : Option Nat) : Decidable (c.eqv a b) := by unfold eqv; split <;> infer_instance
instance (t : Option Nat) : Decidable (c.isBool t) := by unfold isBool; infer_instance
instance (t : Option Nat) : Decidable (c.isInt t) := by unfold isInt; infer_instance
instance (t : Option Nat) : Decidable (c.isStr t) := by unfold isStr; infer_instance
instance (t : Option Nat) : Decidable (c.hasTP t) := by unfold hasTP; infer_instance
instance (t : Option Nat) : Decidable (c.isIntTP t) := by unfold isIntTP; infer_instance
instance (t : Option Nat) : Decidable (c.isIface t) := by unfold isIface; infer_instance
instance (t e : Option Nat) : Decidable (c.isPair t e) := by unfold isPair; infer_instance
end Ctx

/-- operand slot `k` (`none`: nil operand or no such slot) -/
def Instr.op (i : Instr) (k : Nat) : Option Nat := (i.ops[k]?).join

open Ctx in
/-- **The typing table.**  One row per instruction kind: the relation between operand
types, result type and exported fields that the documentation of the instruction in
go/ir/ssa.go states (and the emit helpers of go/ir/emit.go establish).  `t` = result
type, `x k` = type of operand `k`. -/
def TypeRule (c : Ctx) (i : Instr) : Prop :=
  let t := i.ty
  let x := fun k => c.oty (i.op k)
  match i.kind with
  | .Alloc =>
    -- "Alloc values are always addresses, and have pointer types"; "If Heap is false … the
    -- Alloc must be present in Function.Locals" (and only then)
    c.cctor t = some .pointer ∧ (i.a = some 0 ↔ i.b = some 1)
  | .Phi => ∀ o ∈ i.ops, same (c.oty o) t
  | .Load => c.cctor (x 0) = some .pointer ∧ same (c.ckid (x 0) 0) t
  | .Store => c.cctor (x 0) = some .pointer ∧ same (c.ckid (x 0) 0) (x 1)
  | .BinOp =>
    match i.a with
    | some op =>
      if 12 ≤ op ∧ op ≤ 17 then
        -- comparison: yields a boolean; emitCompare converts one operand to the other's type
        -- unless the underlying types are already identical (channels of different
        -- direction and type parameters are compared as they are)
        c.isBool t ∧ (x 0).isSome = true ∧ (x 1).isSome = true ∧
          (c.under (x 0) = c.under (x 1) ∨ (c.cctor (x 0) = some .chan ∧ c.cctor (x 1) = some .chan) ∨
           c.hasTP (x 0) ∨ c.hasTP (x 1))
      else if op = 9 ∨ op = 10 then same (x 0) t ∧ c.isIntTP (x 1)
      else if 1 ≤ op ∧ op ≤ 11 then same (x 0) t ∧ same (x 1) t
      else False
    | none => False
  | .UnOp =>
    (i.a = some 18 ∨ i.a = some 2 ∨ i.a = some 8) ∧ same (x 0) t ∧ (i.a = some 18 → c.isBool t)
  | .If => c.isBool (x 0)
  | .Return => i.ops.map c.oty = c.results.map some
  | .MakeInterface =>
    c.isIface t ∧ c.ctor t ≠ some .typeparam ∧ (x 0).isSome = true ∧
      (¬ c.isIface (x 0) ∨ c.ctor (x 0) = some .typeparam)
  | .ChangeInterface => c.isIface t ∧ c.isIface (x 0)
  | .ChangeType =>
    -- "a value-preserving type change": named type <-> its underlying type / another named
    -- type of the same underlying type (identical up to struct tags: `eqv`); (possibly named)
    -- pointers to identical base types; a bidirectional channel to a directed one (or a name
    -- change); a type and its instance (type parameters involved)
    (x 0).isSome = true ∧ t.isSome = true ∧ x 0 ≠ t ∧
      (c.hasTP t ∨ c.hasTP (x 0) ∨ c.eqv (c.under t) (c.under (x 0)) ∨
       (c.ctor (c.under t) = some .pointer ∧ c.ctor (c.under (x 0)) = some .pointer ∧
          c.eqv (c.under (c.kid (c.under t) 0)) (c.under (c.kid (c.under (x 0)) 0))) ∨
       (c.ctor (c.under t) = some .chan ∧ c.ctor (c.under (x 0)) = some .chan ∧
          c.eqv (c.kid (c.under t) 0) (c.kid (c.under (x 0)) 0) ∧
          (c.len (c.under (x 0)) = some 0 ∨ c.len (c.under (x 0)) = c.len (c.under t))))
  | .Convert =>
    -- "One or both of those types is basic (but possibly named). … Conversions are permitted:
    -- between real numeric types; between complex numeric types; between string and []byte or
    -- []rune; between pointers and unsafe.Pointer; between unsafe.Pointer and uintptr; from
    -- (Unicode) integer to (UTF-8) string."  A value-preserving change is a ChangeType, never
    -- a Convert.
    (x 0).isSome = true ∧ t.isSome = true ∧
      (c.hasTP t ∨ c.hasTP (x 0) ∨
       (c.under t ≠ c.under (x 0) ∧
        ((c.isReal (x 0) ∧ c.isReal t) ∨ (c.isComplex (x 0) ∧ c.isComplex t) ∨
         (c.isStr (x 0) ∧ c.isBytesOrRunes t) ∨ (c.isBytesOrRunes (x 0) ∧ c.isStr t) ∨
         (c.ctor (c.under (x 0)) = some .pointer ∧ c.isUnsafePtr t) ∨
         (c.isUnsafePtr (x 0) ∧ c.ctor (c.under t) = some .pointer) ∨
         (c.isUnsafePtr (x 0) ∧ c.isUintptr t) ∨ (c.isUintptr (x 0) ∧ c.isUnsafePtr t) ∨
         (c.isInt (x 0) ∧ c.isStr t))))
  | .MultiConvert => c.ctor t = some .typeparam ∨ c.ctor (x 0) = some .typeparam
  | .TypeAssert =>
    c.isIface (x 0) ∧ i.b.isSome = true ∧ (if i.a = some 1 then c.isPair t i.b else t = i.b)
  | .Extract =>
    c.ctor (x 0) = some .tuple ∧ i.a.isSome = true ∧ same (c.kid (x 0) (i.a.getD 0)) t
  | .Field =>
    c.cctor (x 0) = some .strct ∧ i.a.isSome = true ∧ same (c.ckid (x 0) (i.a.getD 0)) t
  | .FieldAddr =>
    c.cctor (x 0) = some .pointer ∧ c.cctor (c.ckid (x 0) 0) = some .strct ∧ i.a.isSome = true ∧
      c.cctor t = some .pointer ∧ same (c.ckid (c.ckid (x 0) 0) (i.a.getD 0)) (c.ckid t 0)
  | .IndexAddr =>
    c.isIntTP (x 1) ∧
      (c.hasTP (x 0) ∨
       (c.cctor t = some .pointer ∧
        ((c.cctor (x 0) = some .slice ∧ same (c.ckid (x 0) 0) (c.ckid t 0)) ∨
         (c.cctor (x 0) = some .pointer ∧ c.cctor (c.ckid (x 0) 0) = some .array ∧
            same (c.ckid (c.ckid (x 0) 0) 0) (c.ckid t 0)))))
  | .Index =>
    c.isIntTP (x 1) ∧
      (c.hasTP (x 0) ∨ (c.cctor (x 0) = some .array ∧ same (c.ckid (x 0) 0) t) ∨
       (c.isStr (c.core (x 0)) ∧ c.ctor t = some .basic ∧ c.len t = some 8))
  | .StringLookup =>
    (c.isStr (x 0) ∨ c.hasTP (x 0)) ∧ c.ctor t = some .basic ∧ c.len t = some 8 ∧ c.isIntTP (x 1)
  | .MapLookup =>
    c.cctor (x 0) = some .map ∧ same (c.ckid (x 0) 0) (x 1) ∧
      (if i.a = some 1 then c.isPair t (c.ckid (x 0) 1) else same (c.ckid (x 0) 1) t)
  | .MapUpdate =>
    c.cctor (x 0) = some .map ∧ same (c.ckid (x 0) 0) (x 1) ∧ same (c.ckid (x 0) 1) (x 2)
  | .MakeMap => c.cctor t = some .map
  | .MakeChan => c.cctor t = some .chan ∧ c.isIntTP (x 0)
  | .MakeSlice => c.cctor t = some .slice ∧ c.isIntTP (x 0) ∧ c.isIntTP (x 1)
  | .Slice =>
    (∀ o ∈ i.ops.drop 1, o = none ∨ c.isIntTP (c.oty o)) ∧
      (c.hasTP (x 0) ∨
       (c.cctor (x 0) = some .slice ∧ c.cctor t = some .slice ∧ same (c.ckid (x 0) 0) (c.ckid t 0)) ∨
       (c.isStr (c.core (x 0)) ∧ c.isStr (c.core t)) ∨
       (c.cctor (x 0) = some .pointer ∧ c.cctor (c.ckid (x 0) 0) = some .array ∧
          c.cctor t = some .slice ∧ same (c.ckid (c.ckid (x 0) 0) 0) (c.ckid t 0)))
  | .Send => c.cctor (x 0) = some .chan ∧ same (c.ckid (x 0) 0) (x 1)
  | .Recv =>
    c.cctor (x 0) = some .chan ∧
      (if i.a = some 1 then c.isPair t (c.ckid (x 0) 0) else same (c.ckid (x 0) 0) t)
  | .Panic => c.isIface (x 0)
  | .Range => (c.cctor (x 0) = some .map ∨ c.cctor (x 0) = some .basic) ∧ c.ctor t = some .iterator
  | .Next =>
    ((i.op 0).bind c.ikind) = some .Range ∧ c.ctor t = some .tuple ∧ (c.kids t).length = 3 ∧
      c.isBool (c.kid t 0) ∧ same (c.kid (x 0) 0) t
  | .Call | .Go | .Defer =>
    -- b = CallCommon.Signature(), c = len(Args), xs = [signature has a receiver]
    let sig := i.b
    let nargs := i.c.getD 0
    let args := (i.ops.drop 1).take nargs
    let recv := if i.xs = [some 1] ∧ i.a = some 0 then 1 else 0
    c.ctor sig = some .signature ∧ i.c.isSome = true ∧ args.length = nargs ∧
      args.length = (c.kids (c.kid sig 0)).length + recv ∧
      (args.drop recv).map c.oty = (c.kids (c.kid sig 0)).map some ∧
      (i.kind = .Call →
        if (c.kids (c.kid sig 1)).length = 1 then same (c.kid (c.kid sig 1) 0) t
        else same (c.kid sig 1) t) ∧
      (if i.a = some 1 then c.isIface (x 0) else c.cctor (x 0) = some .signature)
  | .MakeClosure =>
    c.ctor (c.under t) = some .signature ∧ i.a.isSome = true ∧ i.a = i.b ∧
      (i.ops.drop 1).map c.oty = i.xs ∧ (∀ o ∈ i.xs, o.isSome = true) ∧
      (((i.op 0).bind c.vkind) = some .anonfunc ∨ ((i.op 0).bind c.vkind) = some .function)
  | .TypeSwitch => c.isIface (x 0)
  | .SliceToArrayPointer =>
    c.hasTP t ∨ c.hasTP (x 0) ∨
      (c.cctor (x 0) = some .slice ∧ c.cctor t = some .pointer ∧ c.cctor (c.ckid t 0) = some .array ∧
        same (c.ckid (x 0) 0) (c.ckid (c.ckid t 0) 0))
  | .SliceToArray =>
    c.hasTP t ∨ c.hasTP (x 0) ∨
      (c.cctor (x 0) = some .slice ∧ c.cctor t = some .array ∧ same (c.ckid (x 0) 0) (c.ckid t 0))
  | .Select => c.ctor t = some .tuple ∧ 2 ≤ (c.kids t).length
  | .ConstantSwitch =>
    -- "Constant branch conditions. A nil Value denotes the (implicit or explicit) default
    -- branch."  Operands = Tag :: Conds, a = len(Conds) (one successor per cond: `termArity`).
    -- A cond is a constant of the tag's type; an interface-typed tag is compared with
    -- constants of any type (`switch err { case nil: … case syscall.EINTR: … }`).
    (x 0).isSome = true ∧ i.a = some (i.ops.length - 1) ∧
      (∀ o ∈ i.ops.drop 1, o = none ∨
        (o.bind c.vkind = some .const ∧ (same (c.oty o) (x 0) ∨ c.isIface (x 0) ∨ c.hasTP (x 0)))) ∧
      (i.ops.drop 1).count none ≤ 1
  | .CompositeValue =>
    -- a struct value lists one operand per field, an array value one per element, each of
    -- exactly the field / element type (builder.go compLit, lvalue.go compositeElement.store)
    i.a = some i.ops.length ∧ (∀ o ∈ i.ops, o ≠ none) ∧
      ((c.cctor t = some .strct ∧ i.ops.map c.oty = (c.kids (c.core t)).map some) ∨
       (c.cctor t = some .array ∧ c.len (c.core t) = some i.ops.length ∧
          ∀ o ∈ i.ops, same (c.oty o) (c.ckid t 0)))
  | .BlankStore => (x 0).isSome = true
  | .DebugRef =>
    -- "IsAddr: Expr is addressable and X is the address it denotes"
    (x 0).isSome = true ∧ (i.a = some 1 → c.cctor (x 0) = some .pointer)
  | .Jump | .Unreachable | .RunDefers => i.ops = []

instance (c : Ctx) (i : Instr) : Decidable (TypeRule c i) := by
  unfold TypeRule
  simp only []
  split <;> first | infer_instance | (split <;> infer_instance)

/-- kinds that have a row in the typing table -/
def typedKinds : List Kind :=
  [.Alloc, .Phi, .Load, .Store, .BinOp, .UnOp, .If, .Return, .MakeInterface, .ChangeInterface,
   .ChangeType, .Convert, .MultiConvert, .TypeAssert, .Extract, .Field, .FieldAddr, .IndexAddr,
   .Index, .StringLookup, .MapLookup, .MapUpdate, .MakeMap, .MakeChan, .MakeSlice, .Slice, .Send,
   .Recv, .Panic, .Range, .Next, .Call, .Go, .Defer, .MakeClosure, .TypeSwitch,
   .SliceToArrayPointer, .SliceToArray, .Select, .ConstantSwitch, .CompositeValue, .BlankStore,
   .DebugRef, .Jump, .Unreachable, .RunDefers]

/-- kinds deliberately without a row (none any more: the three operand-less kinds carry the
row "no operands") -/
def untypedKinds : List Kind := []

/-- every instruction kind of the model (`allKinds_complete` in Theorems.lean) -/
def allKinds : List Kind := typedKinds ++ untypedKinds

end Verif.C02
