/-
C02 — the sorting helpers of the validator (`msort`, `squash`, `canonSet`, Model.lean) are
verified here: `msort` is a permutation (`msort_perm`), sorted (`msort_sorted`) and therefore a
canonical form of the multiset (`msort_canon`: permutations sort to the same list); `canonSet`
is a canonical form of the SET of pairs (`canonSet_eq_iff`).  These facts make the three
sort-based clauses of the validator (distinct IDs, cfg-inverse, refs-inverse) exact.

`msort` is a fuel-based bottom-up merge sort (structural recursion, so that the kernel can
evaluate the validator on the non-vacuity examples); `mergeTR_eq` shows that with the fuel the
callers supply it computes `List.merge`, for which core proves sortedness.
-/
import Verif.C02.Model
namespace Verif.C02

/-! ### `msort` is a permutation -/


theorem mergeTR_perm {α : Type} (le : α → α → Bool) :
    ∀ (f : Nat) (xs ys acc : List α), (mergeTR le f xs ys acc).Perm (acc ++ (xs ++ ys)) := by
  intro f
  induction f with
  | zero =>
    intro xs ys acc
    simp only [mergeTR, List.reverseAux_eq]
    exact (List.reverse_perm acc).append_right _
  | succ f ih =>
    intro xs ys acc
    cases xs with
    | nil =>
      simp only [mergeTR, List.reverseAux_eq, List.nil_append]
      exact (List.reverse_perm acc).append_right _
    | cons x xs =>
      cases ys with
      | nil =>
        simp only [mergeTR, List.reverseAux_eq, List.append_nil]
        exact (List.reverse_perm acc).append_right _
      | cons y ys =>
        simp only [mergeTR]
        split
        · refine (ih xs (y :: ys) (x :: acc)).trans ?_
          simp only [List.cons_append]
          exact List.perm_middle.symm
        · refine (ih (x :: xs) ys (y :: acc)).trans ?_
          have h1 : (y :: acc ++ (x :: xs ++ ys)).Perm (acc ++ (y :: (x :: xs ++ ys))) := by
            simp only [List.cons_append]; exact List.perm_middle.symm
          refine h1.trans (List.Perm.append_left acc ?_)
          have : (y :: (x :: xs ++ ys)).Perm ((x :: xs) ++ (y :: ys)) := List.perm_middle.symm
          simpa using this

theorem mergePairsTR_perm {α : Type} (le : α → α → Bool) :
    ∀ (n : Nat) (ls acc : List (List α)), ls.length ≤ n →
      (mergePairsTR le ls acc).flatten.Perm (ls.flatten ++ acc.flatten) := by
  intro n
  induction n using Nat.strongRecOn with
  | _ n ih =>
    intro ls acc hn
    match ls with
    | [] => simp [mergePairsTR]
    | [a] => simp [mergePairsTR]
    | a :: b :: r =>
      simp only [mergePairsTR]
      have hr : r.length ≤ n - 2 := by simp at hn; omega
      refine (ih (n - 2) (by simp at hn; omega) r _ hr).trans ?_
      simp only [List.flatten_cons]
      have hm := mergeTR_perm le (a.length + b.length) a b []
      simp only [List.nil_append] at hm
      have h2 : (r.flatten ++ (mergeTR le (a.length + b.length) a b [] ++ acc.flatten)).Perm
          (r.flatten ++ ((a ++ b) ++ acc.flatten)) :=
        List.Perm.append_left _ (hm.append_right _)
      refine h2.trans ?_
      have : (r.flatten ++ ((a ++ b) ++ acc.flatten)).Perm (((a ++ b) ++ r.flatten) ++ acc.flatten) := by
        rw [← List.append_assoc]
        exact (List.perm_append_comm).append_right _
      refine this.trans ?_
      simp [List.append_assoc]

theorem mergeAll_perm {α : Type} (le : α → α → Bool) :
    ∀ (f : Nat) (ls : List (List α)), (mergeAll le f ls).Perm ls.flatten := by
  intro f
  induction f with
  | zero => intro ls; simp [mergeAll]
  | succ f ih =>
    intro ls
    match ls with
    | [] => simp [mergeAll]
    | [a] => simp [mergeAll]
    | a :: b :: r =>
      simp only [mergeAll]
      refine (ih _).trans ?_
      have := mergePairsTR_perm le _ (a :: b :: r) [] (Nat.le_refl _)
      simpa using this

theorem flatten_map_singleton {α : Type} (l : List α) : (l.map fun x => [x]).flatten = l := by
  induction l with
  | nil => rfl
  | cons a l ih => simp [ih]

theorem msort_perm {α : Type} (le : α → α → Bool) (l : List α) : (msort le l).Perm l := by
  unfold msort
  have := mergeAll_perm le (l.length + 1) (l.map fun x => [x])
  rwa [flatten_map_singleton] at this

theorem mem_squashAux {α : Type} [BEq α] [LawfulBEq α] (x : α) :
    ∀ (l acc : List α), x ∈ squashAux l acc ↔ x ∈ l ∨ x ∈ acc := by
  intro l
  induction l with
  | nil => intro acc; simp [squashAux]
  | cons a r ih =>
    intro acc
    cases acc with
    | nil => simp only [squashAux, ih]; simp [or_comm]
    | cons b acc =>
      simp only [squashAux]
      split
      · rename_i h
        have hab : a = b := by simpa using h
        subst hab
        rw [ih]; simp only [List.mem_cons]
        constructor
        · rintro (h | h | h)
          · exact Or.inl (Or.inr h)
          · exact Or.inl (Or.inl h)
          · exact Or.inr (Or.inr h)
        · rintro ((h | h) | h | h)
          · exact Or.inr (Or.inl h)
          · exact Or.inl h
          · exact Or.inr (Or.inl h)
          · exact Or.inr (Or.inr h)
      · rw [ih]; simp only [List.mem_cons]
        constructor
        · rintro (h | h | h | h)
          · exact Or.inl (Or.inr h)
          · exact Or.inl (Or.inl h)
          · exact Or.inr (Or.inl h)
          · exact Or.inr (Or.inr h)
        · rintro ((h | h) | h | h)
          · exact Or.inr (Or.inl h)
          · exact Or.inl h
          · exact Or.inr (Or.inr (Or.inl h))
          · exact Or.inr (Or.inr (Or.inr h))

theorem mem_canonSet (p : Nat × Nat) (l : List (Nat × Nat)) : p ∈ canonSet l ↔ p ∈ l := by
  unfold canonSet squash
  rw [mem_squashAux]
  simp only [List.not_mem_nil, or_false]
  exact (msort_perm pairLe l).mem_iff



/-! ### `msort` is sorted -/

section Sorted
variable {α : Type} (le : α → α → Bool)

theorem mergeTR_eq : ∀ (f : Nat) (xs ys acc : List α), xs.length + ys.length ≤ f →
    mergeTR le f xs ys acc = acc.reverseAux (List.merge xs ys le) := by
  intro f
  induction f with
  | zero =>
    intro xs ys acc h
    have hx : xs = [] := List.eq_nil_of_length_eq_zero (by omega)
    have hy : ys = [] := List.eq_nil_of_length_eq_zero (by omega)
    subst hx; subst hy
    simp [mergeTR]
  | succ f ih =>
    intro xs ys acc h
    cases xs with
    | nil => simp [mergeTR]
    | cons x xs =>
      cases ys with
      | nil => simp [mergeTR]
      | cons y ys =>
        simp only [mergeTR, List.cons_merge_cons]
        simp only [List.length_cons] at h
        split
        · rw [ih xs (y :: ys) (x :: acc) (by simp only [List.length_cons]; omega)]
          rfl
        · rw [ih (x :: xs) ys (y :: acc) (by simp only [List.length_cons]; omega)]
          rfl

variable (trans : ∀ a b c, le a b = true → le b c = true → le a c = true)
variable (total : ∀ a b, (le a b || le b a) = true)

/-- sorted: every element is `le` every later one -/
abbrev Sorted (l : List α) : Prop := l.Pairwise (fun a b => le a b = true)

include trans total in
theorem mergeTR_sorted (a b : List α) (ha : Sorted le a) (hb : Sorted le b) :
    Sorted le (mergeTR le (a.length + b.length) a b []) := by
  rw [mergeTR_eq le _ a b [] (Nat.le_refl _)]
  exact List.pairwise_merge trans total a b ha hb

include trans total in
theorem mergePairsTR_sorted : ∀ (n : Nat) (ls acc : List (List α)), ls.length ≤ n →
    (∀ l ∈ ls, Sorted le l) → (∀ l ∈ acc, Sorted le l) →
    ∀ l ∈ mergePairsTR le ls acc, Sorted le l := by
  intro n
  induction n using Nat.strongRecOn with
  | _ n ih =>
    intro ls acc hn hls hacc
    match ls with
    | [] => simpa [mergePairsTR] using hacc
    | [a] =>
      intro l hl
      simp only [mergePairsTR, List.mem_cons] at hl
      rcases hl with rfl | hl
      · exact hls _ (by simp)
      · exact hacc l hl
    | a :: b :: r =>
      simp only [mergePairsTR]
      have hr : r.length ≤ n - 2 := by simp at hn; omega
      refine ih (n - 2) (by simp at hn; omega) r _ hr (fun l hl => hls l (by simp [hl])) ?_
      intro l hl
      rcases List.mem_cons.mp hl with rfl | hl
      · exact mergeTR_sorted le trans total a b (hls a (by simp)) (hls b (by simp))
      · exact hacc l hl

theorem mergePairsTR_length : ∀ (n : Nat) (ls acc : List (List α)), ls.length ≤ n →
    (mergePairsTR le ls acc).length = (ls.length + 1) / 2 + acc.length := by
  intro n
  induction n using Nat.strongRecOn with
  | _ n ih =>
    intro ls acc hn
    match ls with
    | [] => simp [mergePairsTR]
    | [a] => simp [mergePairsTR]; omega
    | a :: b :: r =>
      simp only [mergePairsTR]
      have hr : r.length ≤ n - 2 := by simp at hn; omega
      rw [ih (n - 2) (by simp at hn; omega) r _ hr]
      simp only [List.length_cons]
      omega

include trans total in
theorem mergeAll_sorted : ∀ (f : Nat) (ls : List (List α)), ls.length ≤ f →
    (∀ l ∈ ls, Sorted le l) → Sorted le (mergeAll le f ls) := by
  intro f
  induction f with
  | zero =>
    intro ls h _
    have : ls = [] := List.eq_nil_of_length_eq_zero (by omega)
    subst this
    simp [mergeAll]
  | succ f ih =>
    intro ls h hls
    match ls with
    | [] => simp [mergeAll]
    | [a] => simpa [mergeAll] using hls a (by simp)
    | a :: b :: r =>
      simp only [mergeAll]
      refine ih _ ?_ ?_
      · rw [mergePairsTR_length le _ (a :: b :: r) [] (Nat.le_refl _)]
        simp only [List.length_cons, List.length_nil] at h ⊢
        omega
      · exact mergePairsTR_sorted le trans total _ (a :: b :: r) [] (Nat.le_refl _) hls (by simp)

include trans total in
/-- **`msort` sorts** (for a transitive, total comparison). -/
theorem msort_sorted (l : List α) : Sorted le (msort le l) := by
  unfold msort
  refine mergeAll_sorted le trans total _ _ (by simp) ?_
  intro x hx
  obtain ⟨a, _, rfl⟩ := List.mem_map.mp hx
  simp

include trans total in
/-- **`msort` is a canonical form of the multiset**: permutations of each other sort to the
same list (for a transitive, total, antisymmetric comparison). -/
theorem msort_canon (antisymm : ∀ a b, le a b = true → le b a = true → a = b)
    {l₁ l₂ : List α} (h : l₁.Perm l₂) : msort le l₁ = msort le l₂ :=
  List.Perm.eq_of_pairwise (fun a b _ _ => antisymm a b)
    (msort_sorted le trans total l₁) (msort_sorted le trans total l₂)
    ((msort_perm le l₁).trans (h.trans (msort_perm le l₂).symm))

/-! ### `squash` of a sorted list: strictly descending, duplicate free -/

/-- strictly descending -/
abbrev SDesc (l : List α) : Prop := l.Pairwise (fun a b => le b a = true ∧ a ≠ b)

theorem squashAux_sdesc [BEq α] [LawfulBEq α]
    (antisymm : ∀ a b, le a b = true → le b a = true → a = b) :
    ∀ (l acc : List α), Sorted le l → SDesc le acc → (∀ c ∈ acc, ∀ x ∈ l, le c x = true) →
      SDesc le (squashAux l acc) := by
  intro l
  induction l with
  | nil => intro acc _ h _; simpa [squashAux] using h
  | cons a r ih =>
    intro acc hs hacc hle
    have hsr : Sorted le r := (List.pairwise_cons.mp hs).2
    have har : ∀ x ∈ r, le a x = true := (List.pairwise_cons.mp hs).1
    cases acc with
    | nil =>
      simp only [squashAux]
      refine ih [a] hsr (by simp) ?_
      intro c hc x hx
      have : c = a := by simpa using hc
      subst this; exact har x hx
    | cons b acc =>
      simp only [squashAux]
      split
      · exact ih (b :: acc) hsr hacc (fun c hc x hx => hle c hc x (List.mem_cons_of_mem _ hx))
      · rename_i hne
        have hab : a ≠ b := by simpa using hne
        have hba : le b a = true := hle b (by simp) a (by simp)
        refine ih (a :: b :: acc) hsr ?_ ?_
        · refine List.pairwise_cons.mpr ⟨?_, hacc⟩
          intro c hc
          refine ⟨hle c hc a (by simp), ?_⟩
          rcases List.mem_cons.mp hc with rfl | hc'
          · exact hab
          · intro hac
            subst hac
            have := (List.pairwise_cons.mp hacc).1 a hc'
            exact hab (antisymm a b this.1 hba)
        · intro c hc x hx
          rcases List.mem_cons.mp hc with rfl | hc'
          · exact har x hx
          · exact hle c hc' x (List.mem_cons_of_mem _ hx)

theorem sdesc_nodup (l : List α) (h : SDesc le l) : l.Nodup :=
  List.Pairwise.imp (fun h => h.2) h

/-- two strictly descending lists with the same members are equal -/
theorem sdesc_ext (antisymm : ∀ a b, le a b = true → le b a = true → a = b)
    {l₁ l₂ : List α} (h₁ : SDesc le l₁) (h₂ : SDesc le l₂) (h : ∀ a, a ∈ l₁ ↔ a ∈ l₂) : l₁ = l₂ :=
  List.Perm.eq_of_pairwise (le := fun a b => le b a = true ∧ a ≠ b)
    (fun a b _ _ hab hba => antisymm a b hba.1 hab.1) h₁ h₂
    ((List.perm_ext_iff_of_nodup (sdesc_nodup le l₁ h₁) (sdesc_nodup le l₂ h₂)).mpr h)

end Sorted

/-! ### The two comparisons the validator sorts with -/

theorem natLe_trans (a b c : Nat) : natLe a b = true → natLe b c = true → natLe a c = true := by
  simp only [natLe, decide_eq_true_eq]; omega
theorem natLe_total (a b : Nat) : (natLe a b || natLe b a) = true := by
  simp only [natLe, Bool.or_eq_true, decide_eq_true_eq]; omega
theorem natLe_antisymm (a b : Nat) : natLe a b = true → natLe b a = true → a = b := by
  simp only [natLe, decide_eq_true_eq]; omega

theorem pairLe_iff (x y : Nat × Nat) : pairLe x y = true ↔ x.1 < y.1 ∨ (x.1 = y.1 ∧ x.2 ≤ y.2) := by
  simp [pairLe]
theorem pairLe_trans (a b c : Nat × Nat) : pairLe a b = true → pairLe b c = true → pairLe a c = true := by
  simp only [pairLe_iff]; omega
theorem pairLe_total (a b : Nat × Nat) : (pairLe a b || pairLe b a) = true := by
  simp only [Bool.or_eq_true, pairLe_iff]; omega
theorem pairLe_antisymm (a b : Nat × Nat) : pairLe a b = true → pairLe b a = true → a = b := by
  simp only [pairLe_iff]
  intro h1 h2
  exact Prod.ext (by omega) (by omega)

/-- **`canonSet` is a canonical form of the set of pairs.** -/
theorem canonSet_eq_iff (A B : List (Nat × Nat)) : canonSet A = canonSet B ↔ ∀ p, p ∈ A ↔ p ∈ B := by
  constructor
  · intro h p
    rw [← mem_canonSet p A, h, mem_canonSet]
  · intro h
    have hs : ∀ l, SDesc pairLe (canonSet l) := fun l =>
      squashAux_sdesc pairLe pairLe_antisymm _ []
        (msort_sorted pairLe pairLe_trans pairLe_total l) List.Pairwise.nil (by simp)
    exact sdesc_ext pairLe pairLe_antisymm (hs A) (hs B)
      (fun p => by rw [mem_canonSet, mem_canonSet]; exact h p)

end Verif.C02
