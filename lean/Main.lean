import Verif.Common.Proto
import Verif.C20.Driver

def main (args : List String) : IO UInt32 := do
  match args with
  | ["echo"] => Verif.Proto.runLines (fun l => toString (Verif.Proto.tokens l)); return 0
  | ["C20"] => Verif.Proto.runLines Verif.C20.step; return 0
  | _ => IO.eprintln "usage: verifdriver <model>"; return 2
