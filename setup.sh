#!/bin/sh
# MANIFEST.setup_cmd. Build the framework offline from files on disk:
#   - Lean: shared protocol module, then per property its proof modules and its compiled model driver;
#   - Go:   the harness module (replace => /repo) with -tags verif, to warm the build cache.
# A property whose proofs or harness no longer build must not fail the setup of the other
# properties: every check rebuilds what it needs from the current /repo tree and reports a
# broken proof itself (VIOLATION ... no-failing-input-found). Setup fails only when the
# toolchains themselves do not work.
cd "$(dirname "$0")" || exit 2
rc=0
(cd lean && lake build Verif.Common.Proto) || rc=2
for d in $(ls lean/Verif | grep -E '^C[0-9]+$'); do
  low=$(echo "$d" | tr 'C' 'c')
  mods=$(ls lean/Verif/$d/*.lean 2>/dev/null | grep -v '/Main.lean$' | sed 's#^lean/##; s#\.lean$##; s#/#.#g')
  [ -z "$mods" ] && continue
  tgt="$mods"
  [ -f "lean/Verif/$d/Main.lean" ] && tgt="$tgt ${low}driver"
  if ! (cd lean && lake build $tgt) > /tmp/verif_setup_$d.log 2>&1; then
    echo "setup: note: lake build of $d reported errors (its check will report them):"
    grep -E '^error' /tmp/verif_setup_$d.log | head -5
  fi
  rm -f /tmp/verif_setup_$d.log
done
python3 - <<'PY' || rc=2
import sys, os
sys.path.insert(0, os.getcwd())
import vlib
vlib.sync_harness_gosum()
rc, so, se = vlib.run([vlib.GO, "version"], env=vlib.go_env())
if rc != 0:
    print(so + se)
    sys.exit(2)
rc, so, se = vlib.run([vlib.GO, "build", "-tags", "verif", "./..."], cwd=vlib.HARNESS, env=vlib.go_env())
if rc != 0:
    print("setup: note: go build of the harness reported errors (the affected checks will report them):")
    print((so + se)[-3000:])
PY
exit $rc
