#!/bin/sh
# Build the framework offline from files on disk: Lean models+proofs+driver, Go harness warm-up.
set -e
cd "$(dirname "$0")"
(cd lean && lake build Verif $(ls Verif | grep -E '^C[0-9]+$' | while read d; do [ -f "Verif/$d/Main.lean" ] && echo "$(echo $d | tr 'C' 'c')driver"; done))
python3 - <<'PY'
import sys, os
sys.path.insert(0, os.getcwd())
import vlib
vlib.sync_harness_gosum()
rc, so, se = vlib.run([vlib.GO, "build", "-tags", "verif", "./..."], cwd=vlib.HARNESS, env=vlib.go_env())
print(so + se)
sys.exit(rc)
PY
