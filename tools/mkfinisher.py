#!/usr/bin/env python3
import sys
pid, tmp, state = sys.argv[1], sys.argv[2], sys.argv[3]
t = open('/verif/tools/finisher_prompt.md').read()
print(t.replace('{PID}', pid).replace('{pid}', pid.lower()).replace('{TMP}', tmp).replace('{STATE}', state))
