#!/usr/bin/env python3
"""Fill DESIGN.md section 9.2 from the 'Proposed text for DESIGN.md' section (section 9) of notes/Cxx.md
for every property listed in tools/ready.txt."""
import os, re
R = os.path.dirname(os.path.dirname(os.path.abspath(__file__)))
ready = [l.strip() for l in open(os.path.join(R, "tools", "ready.txt")) if l.strip() and not l.startswith("#")]
parts = []
for pid in sorted(ready):
    p = os.path.join(R, "notes", pid + ".md")
    if not os.path.exists(p):
        parts.append("**%s** — integrated; see checks/%s.py (META) — notes missing.\n" % (pid, pid.lower()))
        continue
    t = open(p).read()
    m = re.search(r"^#+.*[Pp]roposed (?:text|DESIGN).*$", t, re.M)
    if not m:
        m = re.search(r"^#+\s*\(?9\)?[.)]?\s.*?$", t, re.M)
    if not m:
        parts.append("**%s** — see notes/%s.md.\n" % (pid, pid))
        continue
    body = t[m.end():]
    n = re.search(r"^#{1,2}\s", body, re.M)
    if n:
        body = body[:n.start()]
    body = body.strip()
    body = re.sub(r"^```(?:markdown|md|text)?\n(.*)\n```$", r"\1", body, flags=re.S)
    parts.append(body.strip() + "\n")
d = open(os.path.join(R, "DESIGN.md")).read()
b = d.index("<!-- BEGIN 9.2")
b = d.index("\n", b) + 1
e = d.index("<!-- END 9.2 -->")
d = d[:b] + "\n" + "\n".join(parts) + "\n" + d[e:]
open(os.path.join(R, "DESIGN.md"), "w").write(d)
print("9.2 filled for", sorted(ready))
