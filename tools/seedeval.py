#!/usr/bin/env python3
"""Confirm a seeded property-breaking change and run our check(s) against it.

usage: tools/seedeval.py <Cxx> <outdir-of-seeding-agent> <i> [--tier quick|thorough] [--checks Cxx,Cyy] [--no-tests] [--name NAME]

Steps (all in a scratch worktree of /repo, never /repo itself):
  1. git worktree add, git apply patch<i>.diff
  2. go build ./... ; go vet-less tests of the touched packages (unedited suite)
  3. demo<i>/run.sh with REPO=<worktree> must exit != 0, with REPO=/repo must exit 0
  4. VERIF_REPO=<worktree> ./check <Cxx> --tier <tier>  -> rc, VIOLATION lines
  5. if 1-3 confirmed: copy to /verif/seeded/<name>/ {patch.diff, demo/, meta.json}
"""
import argparse
import json
import os
import re
import shutil
import subprocess
import sys
import time

ROOT = os.path.dirname(os.path.dirname(os.path.abspath(__file__)))
sys.path.insert(0, ROOT)
import vlib  # noqa: E402


def sh(cmd, cwd=None, env=None, timeout=3600):
    p = subprocess.run(cmd, cwd=cwd, env=env, shell=isinstance(cmd, str), timeout=timeout,
                       stdout=subprocess.PIPE, stderr=subprocess.STDOUT, text=True)
    return p.returncode, p.stdout


def main():
    ap = argparse.ArgumentParser()
    ap.add_argument("prop")
    ap.add_argument("outdir")
    ap.add_argument("i")
    ap.add_argument("--tier", default="quick")
    ap.add_argument("--checks", default=None)
    ap.add_argument("--no-tests", action="store_true")
    ap.add_argument("--no-demo", action="store_true")
    ap.add_argument("--name", default=None)
    ap.add_argument("--seed", default="1")
    a = ap.parse_args()
    patch = os.path.join(a.outdir, "patch%s.diff" % a.i)
    demo = os.path.join(a.outdir, "demo%s" % a.i)
    metaf = os.path.join(a.outdir, "meta%s.json" % a.i)
    name = a.name or "%s-%s-%s" % (a.prop, os.path.basename(a.outdir.rstrip("/")).replace(".out", "").split("_")[-1], a.i)
    wt = "/tmp/sv_%s" % name
    res = {"name": name, "property": a.prop, "patch": patch}
    env = vlib.go_env({"CGO_ENABLED": "1"})
    sh(["git", "-C", "/repo", "worktree", "remove", "--force", wt])
    rc, out = sh(["git", "-C", "/repo", "worktree", "add", "--detach", wt, "HEAD"])
    if rc != 0:
        print(out)
        sys.exit(2)
    try:
        rc, out = sh(["git", "apply", patch], cwd=wt)
        res["applies"] = rc == 0
        if rc != 0:
            res["apply_log"] = out[-2000:]
            print(json.dumps(res, indent=1))
            return 1
        rc, out = sh(["git", "diff", "--stat"], cwd=wt)
        res["diffstat"] = out.strip().splitlines()
        touched = sorted(set(os.path.dirname(l.split("|")[0].strip()) for l in out.strip().splitlines()[:-1]))
        touched = [t for t in touched if "testdata" not in t]
        res["touched_pkgs"] = touched
        rc, out = sh([vlib.GO, "build", "./..."], cwd=wt, env=env)
        res["builds"] = rc == 0
        if rc != 0:
            res["build_log"] = out[-3000:]
        if not a.no_tests and res["builds"]:
            pk = ["./" + t + "/..." if t else "./..." for t in touched]
            t0 = time.time()
            rc, out = sh([vlib.GO, "test", "-vet=off", "-count=1", "-p", "6"] + pk, cwd=wt, env=env, timeout=3000)
            res["tests_cmd"] = "go test -vet=off -count=1 " + " ".join(pk)
            res["tests_pass"] = rc == 0
            res["tests_wall_s"] = round(time.time() - t0)
            if rc != 0:
                res["tests_log"] = out[-3000:]
        if not a.no_demo and os.path.exists(os.path.join(demo, "run.sh")):
            denv = dict(env)
            denv["REPO"] = wt
            rc1, out1 = sh(["sh", "./run.sh"], cwd=demo, env=denv, timeout=1800)
            denv["REPO"] = "/repo"
            rc0, out0 = sh(["sh", "./run.sh"], cwd=demo, env=denv, timeout=1800)
            res["demo_fails_with_patch"] = rc1 != 0
            res["demo_passes_without_patch"] = rc0 == 0
            res["demo_tail_with_patch"] = out1[-800:]
            if rc0 != 0:
                res["demo_tail_without_patch"] = out0[-800:]
        checks = (a.checks or a.prop).split(",")
        res["checks"] = {}
        for c in checks:
            cenv = dict(os.environ)
            cenv["VERIF_REPO"] = wt
            cenv["VERIF_SEED"] = a.seed
            cenv["VERIF_EVIDENCE_DIR"] = wt + ".evidence"
            # generated Lean tables are rewritten from the worktree: put the /repo versions back afterwards
            gdir = os.path.join(ROOT, "lean", "Verif", c)
            saved = {}
            for fn in os.listdir(gdir) if os.path.isdir(gdir) else []:
                if fn.startswith("Generated"):
                    saved[fn] = open(os.path.join(gdir, fn)).read()
            t0 = time.time()
            try:
                rc, out = sh([os.path.join(ROOT, "check"), c, "--tier", a.tier], cwd=ROOT, env=cenv, timeout=7200)
            finally:
                for fn, txt in saved.items():
                    open(os.path.join(gdir, fn), "w").write(txt)
                shutil.rmtree(wt + ".evidence", ignore_errors=True)
            vl = [l for l in out.splitlines() if l.startswith("VIOLATION")]
            res["checks"][c] = {"rc": rc, "violations": vl, "wall_s": round(time.time() - t0),
                                "comments": [l for l in out.splitlines() if l.startswith("# ")][:8]}
            if rc not in (0, 1):
                res["checks"][c]["tail"] = out[-1500:]
        confirmed = res.get("builds") and res.get("tests_pass", True) and \
            res.get("demo_fails_with_patch", True) and res.get("demo_passes_without_patch", True)
        res["confirmed"] = bool(confirmed)
        res["caught_by"] = [c for c, v in res["checks"].items() if v["rc"] == 1 and v["violations"]]
        if confirmed:
            d = os.path.join(ROOT, "seeded", name)
            history = []
            try:
                old = json.load(open(os.path.join(d, "meta.json")))
                history = old.get("history") or []
                for c, v in sorted((old.get("check_results") or {}).items()):
                    st = "caught" if (v.get("rc") == 1 and v.get("violations")) else ("MISSED" if v.get("rc") == 0 else "rc=%s" % v.get("rc"))
                    new = res["checks"].get(c, {})
                    nst = "caught" if (new.get("rc") == 1 and new.get("violations")) else ("MISSED" if new.get("rc") == 0 else "rc=%s" % new.get("rc"))
                    if st != nst:
                        history.append("%s %s" % (c, st))
            except Exception:
                pass
            shutil.rmtree(d, ignore_errors=True)
            os.makedirs(d)
            shutil.copy(patch, os.path.join(d, "patch.diff"))
            if os.path.isdir(demo):
                shutil.copytree(demo, os.path.join(d, "demo"), ignore=shutil.ignore_patterns("*.test", "bin", "cache*"))
            meta = {}
            if os.path.exists(metaf):
                try:
                    meta = json.load(open(metaf))
                except Exception:
                    meta = {"raw": open(metaf).read()}
            meta["property"] = a.prop
            meta["confirmed_by_integrator"] = {k: res.get(k) for k in (
                "builds", "tests_cmd", "tests_pass", "demo_fails_with_patch", "demo_passes_without_patch", "touched_pkgs")}
            meta["check_results"] = res["checks"]
            meta["caught_by"] = res["caught_by"]
            if history:
                meta["history"] = history
            meta["repo_base_commit"] = subprocess.run(["git", "-C", "/repo", "rev-parse", "--short", "HEAD"], stdout=subprocess.PIPE, text=True).stdout.strip()
            meta["how_run"] = "tools/seedeval.py: scratch worktree + git apply; VERIF_REPO=<worktree> ./check <id> --tier %s" % a.tier
            json.dump(meta, open(os.path.join(d, "meta.json"), "w"), indent=1)
    finally:
        sh(["git", "-C", "/repo", "worktree", "remove", "--force", wt])
        shutil.rmtree(wt, ignore_errors=True)
    print(json.dumps(res, indent=1))
    return 0


if __name__ == "__main__":
    sys.exit(main())
