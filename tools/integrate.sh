#!/bin/sh
# tools/integrate.sh Cxx : run the check with a few seeds, validate evidence, regenerate shared files.
set -u
cd "$(dirname "$0")/.."
P=$1
fail=0
for seed in ${SEEDS:-1 2 3}; do
  start=$(date +%s)
  VERIF_SEED=$seed ./check $P --tier quick > /tmp/integrate_$P.out 2>&1
  rc=$?
  end=$(date +%s)
  echo "seed=$seed rc=$rc wall=$((end-start))s $(grep -c '^VIOLATION' /tmp/integrate_$P.out) violation lines, $(grep -c '^KNOWN-FINDING' /tmp/integrate_$P.out) known"
  if [ $rc -ne 0 ]; then fail=1; tail -15 /tmp/integrate_$P.out; fi
  python3-vt - <<PY || fail=1
import json, jsonschema
e = json.load(open('evidence/$P.json'))
jsonschema.validate(e, json.load(open('/root/.vp/EVIDENCE.schema.json')))
c = e['coverage']
print('  evidence ok: level=%s evaluations=%s distinct_nontrivial=%s obligations=%s discharged=%s wall=%s' % (e['level'], c.get('evaluations'), c.get('distinct_nontrivial'), c.get('obligations'), c.get('discharged'), e['wall_s']))
if e['level'] == 'proof' and c.get('obligations') != c.get('discharged'):
    raise SystemExit('  obligations != discharged')
PY
done
if [ $fail -eq 0 ]; then
  grep -qx "$P" tools/ready.txt || echo "$P" >> tools/ready.txt
  python3 tools/mkroot.py; python3 tools/mkfindings.py; python3 tools/mkmanifest.py; python3 tools/mkdesign92.py; python3 tools/mkseeded.py; python3 tools/mkdefects.py; python3 tools/mkasbuilt.py
  python3-vt -c "import json,jsonschema; jsonschema.validate(json.load(open('MANIFEST.json')),json.load(open('/root/.vp/MANIFEST.schema.json'))); print('manifest ok')"
else
  echo "NOT integrated: $P"
fi
exit $fail
