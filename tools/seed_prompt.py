#!/usr/bin/env python3
"""Print the prompt for a seeded-mutation sub-agent: only the property text + sandbox facts."""
import json, sys
pid = sys.argv[1]
k = sys.argv[2] if len(sys.argv) > 2 else "1"
for l in open("/verif/properties.jsonl"):
    p = json.loads(l)
    if p["id"] == pid:
        break
wt = "/tmp/seed_%s_%s" % (pid, k)
print(f"""You are helping to evaluate a verification effort by writing a realistic BUG. Work only in your own scratch git worktree; never modify /repo itself and do not read anything under /verif.

Repository: dominikh/go-tools (Staticcheck, Go module honnef.co/go/tools) at /repo. Create your worktree with:
  git -C /repo worktree add {wt} HEAD
and work only inside {wt}. Put your deliverables in {wt}.out/ (create it).

Environment (no network): before any go command run
  export GOTOOLCHAIN=local GOFLAGS=-mod=mod GOPROXY=off PATH=/root/go/pkg/mod/golang.org/toolchain@v0.0.1-go1.26.0.linux-amd64/bin:$PATH
`go build ./...` and `go test -vet=off -count=1 ./<pkg>/...` work inside the worktree.

The semantic property that should hold for this codebase:
  id: {p['id']} — {p['title']}
  statement: {p['statement']}
  quantifier: {p['quantifier']['text']}
  why the existing tests cannot settle it: {p['why_tests_cant']}
  anchored in: {', '.join(p['anchors']['files'])}
  mechanisms: {'; '.join(m['name'] + ' (' + m.get('where','') + ')' for m in p['anchors']['mechanism'])}

Your task: produce up to 3 DIFFERENT source changes (each a separate small patch against HEAD) to dominikh/go-tools that each BREAK this property while the repository still compiles (`go build ./...`) and the existing test suite of every package you touched (and its obvious dependents) still passes unedited. For each change also write a demonstration — a Go test file or small program with exact commands — that FAILS (shows the property violated) with the change applied and PASSES without it. Prefer subtle changes that need something specific to manifest: a particular input shape, a multi-step sequence of operations, a particular interleaving or crash point, an unusual configuration, or two cooperating sites that each look fine alone — not changes that ordinary use would expose at once, and not changes that simply delete the feature. The changes should be realistic regressions a maintainer could plausibly introduce (off-by-one, wrong field, dropped case, swapped operands, missing key component, stale cache key, wrong comparison), in the files the property is anchored in.

For each change i = 1..3 deliver in {wt}.out/:
  patch<i>.diff   (output of `git diff` in the worktree for that change alone; reset the worktree with `git checkout -- .` between changes)
  demo<i>/        (the demonstration: files + a run.sh that exits non-zero when the property is violated; it is run as `REPO=<path to a tree> ./run.sh` and must build what it needs from $REPO — e.g. via a temporary Go module with `replace honnef.co/go/tools => $REPO` and a copy of $REPO/go.sum, or by `go build`ing commands of $REPO into a temp dir; it must not write into $REPO)
  meta<i>.json    ({{"property": "{p['id']}", "summary": "...", "files_touched": [...], "needs_to_manifest": "...", "tests_run": ["cmd ..."], "demo_fails_with_patch": true, "demo_passes_without_patch": true}})
Verify all of that yourself (build, tests of touched packages, demo with and without the patch) before finishing. When done, remove the worktree with `git -C /repo worktree remove --force {wt}` (keep {wt}.out). Finish with a short summary of the patches.""")
