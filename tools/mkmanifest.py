#!/usr/bin/env python3
"""Regenerate MANIFEST.json from the META dict of every checks/cNN.py and NOT_APPLICABLE below."""
import importlib
import json
import os
import sys

ROOT = os.path.dirname(os.path.dirname(os.path.abspath(__file__)))
sys.path.insert(0, ROOT)

NOT_YET = {}
# properties not (yet) claimed: id -> reason
for line in open(os.path.join(ROOT, "tools", "not_applicable.txt")):
    line = line.strip()
    if line and not line.startswith("#"):
        pid, reason = line.split(" ", 1)
        NOT_YET[pid] = reason

def hook_commits():
    """`verif hook:` commits of /repo (falls back to tools/hook_commits.txt when /repo has no git history)."""
    import subprocess
    try:
        out = subprocess.run(["git", "-C", "/repo", "log", "--reverse", "--format=%h %s"], stdout=subprocess.PIPE, text=True, timeout=60).stdout
        hs = [l.split()[0] for l in out.splitlines() if l.split(" ", 1)[1].startswith("verif hook")]
        if hs:
            open(os.path.join(ROOT, "tools", "hook_commits.txt"), "w").write("# verif hook commits in /repo (build tag verif; add-only)\n" + "\n".join(hs) + "\n")
            return hs
    except Exception:
        pass
    return [l.strip() for l in open(os.path.join(ROOT, "tools", "hook_commits.txt")) if l.strip() and not l.startswith("#")]


READY = set(l.strip() for l in open(os.path.join(ROOT, "tools", "ready.txt")) if l.strip() and not l.startswith("#"))
checks = []
for n in range(1, 21):
    pid = "C%02d" % n
    if pid not in READY or not os.path.exists(os.path.join(ROOT, "checks", pid.lower() + ".py")):
        if pid not in NOT_YET:
            NOT_YET[pid] = "no check built yet for this property (work in progress; see DESIGN.md section 7)"
        continue
    NOT_YET.pop(pid, None)
    m = importlib.import_module("checks." + pid.lower()).META
    checks.append({
        "property_id": pid,
        "quick_cmd": "./check %s --tier quick" % pid,
        "thorough_cmd": "./check %s --tier thorough" % pid,
        "evidence_file": "/verif/evidence/%s.json" % pid,
        "replay_cmd_template": "./check %s --replay {path}" % pid,
        "engine": "lean4-model+go-harness",
        "level_claimed": {"category": m["level"], "text": m["text"], "design_ref": m.get("design_ref", "DESIGN.md section 5")},
        "level_note": m["note"],
        "technique": m["technique"],
    })

man = {
    "version": 1,
    "setup_cmd": "./setup.sh",
    "hooks": {
        "guard": "verif",
        "enable": "go build -tags verif (the harness module under /verif/harness has `replace honnef.co/go/tools => /repo`)",
        "baseline_off_cmd": "for m in . website; do (cd /repo/$m && GOFLAGS=-mod=mod GOPROXY=off go test -json -vet=off -count=1 -timeout 25m ./...); done",
        "source_commits": hook_commits(),
        "add_only": True,
    },
    "engines": [{
        "name": "lean4-model+go-harness",
        "path": "/verif/check",
        "serves_properties": [c["property_id"] for c in checks],
        "kind_free_text": "Lean 4 models + kernel-checked theorems (lean/), tied to /repo by executable correspondence / generated facts / verified validators driven by a Go harness (harness/) and a python driver (check, vlib.py, checks/)",
    }],
    "checks": checks,
    "not_applicable": [{"property_id": k, "reason": v} for k, v in sorted(NOT_YET.items())],
    "notes": "See DESIGN.md. Known findings and fixed defects: known-findings.txt.",
}
with open(os.path.join(ROOT, "MANIFEST.json"), "w") as f:
    json.dump(man, f, indent=1)
    f.write("\n")
print("checks:", [c["property_id"] for c in checks])
