#!/usr/bin/env python3
"""Merge findings.d/*.txt into known-findings.txt (committed; never written by a check)."""
import glob, os
R = os.path.dirname(os.path.dirname(os.path.abspath(__file__)))
head = """# Known findings and fixed defects (see DESIGN.md section 6). Never written at run time.
# finding: property=<id> key=<key> <specific failing input / call site>   -> printed as KNOWN-FINDING, exit 0
# fixed: property=<id> <commit> <what failed>                              -> suppresses nothing
"""
lines = []
for f in sorted(glob.glob(os.path.join(R, "findings.d", "*.txt"))):
    for l in open(f):
        l = l.rstrip()
        if l and not l.startswith("#") and l not in lines:
            lines.append(l)
open(os.path.join(R, "known-findings.txt"), "w").write(head + "\n".join(lines) + "\n")
